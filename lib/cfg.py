"""Python view of cfgdump's JSON: statement table, CFG, access paths, and a
small forward may-dataflow engine over automaton states."""
import re
from collections import defaultdict, deque

TRANSPARENT = {"ImplicitCastExpr", "ParenExpr", "ExprWithCleanups",
               "MaterializeTemporaryExpr", "CXXBindTemporaryExpr",
               "ConstantExpr", "SubstNonTypeTemplateParmExpr", "FullExpr"}


# maximal nesting rendered by Func.text (deeper sub-expressions print as '?'); rules comparing rendered expressions raise it
TEXT_DEPTH = [12]


class Block:
    __slots__ = ("id", "elems", "term", "termKind", "cond", "succs", "label",
                 "noreturn", "preds", "tempDtorBranch", "unreach")

    def __init__(self, d):
        self.id = d["id"]
        self.elems = d["elems"]
        self.term = d.get("term")
        self.termKind = d.get("termKind")
        self.cond = d.get("cond")
        self.label = d.get("label")
        self.noreturn = d.get("noreturn", False)
        self.tempDtorBranch = d.get("tempDtorBranch", False)
        self.succs = []
        self.unreach = []
        for s in d["succs"]:
            if isinstance(s, dict):
                self.succs.append(s["unreachable"])
                self.unreach.append(True)
            else:
                self.succs.append(s)
                self.unreach.append(False)
        self.preds = []


class Func:
    def __init__(self, d, unit=None):
        self.d = d
        self.unit = unit
        self.qname = d["qname"]
        self.display = d.get("display", self.qname)
        self.loc = d.get("loc", "")
        self.file = d.get("file", "")
        self.id = d["id"]
        self.parent = d.get("parentFunc")
        self.cls = d.get("class")
        self.params = d.get("params", [])
        self.stmts = {int(k): v for k, v in d["stmts"].items()}
        self.body = d.get("body")
        self.blocks = {}
        self.entry = self.exit = None
        if "cfg" in d:
            for b in d["cfg"]["blocks"]:
                self.blocks[b["id"]] = Block(b)
            self.entry = d["cfg"]["entry"]
            self.exit = d["cfg"]["exit"]
            for b in self.blocks.values():
                for s in b.succs:
                    if s is not None and s in self.blocks:
                        self.blocks[s].preds.append(b.id)
        self._parent = None

    # ------------------------------------------------------------- nodes
    def n(self, sid):
        return self.stmts[sid]

    def kind(self, sid):
        return self.stmts[sid]["k"]

    def kids(self, sid):
        return [c for c in self.stmts[sid].get("c", []) if c is not None and c > 0]

    def strip(self, sid):
        """skip value-preserving wrappers."""
        while sid is not None and sid > 0:
            n = self.stmts[sid]
            k = n["k"]
            if k in TRANSPARENT:
                ks = self.kids(sid)
                if not ks:
                    return sid
                sid = ks[0]
                continue
            if k in ("CXXFunctionalCastExpr", "CStyleCastExpr", "CXXStaticCastExpr") \
                    and n.get("cast") in ("NoOp", "LValueToRValue"):
                sid = self.kids(sid)[0]
                continue
            # copy/move construction of the same object: look through
            if k == "CXXConstructExpr" and n.get("copyOrMove") and len(n.get("args", [])) == 1:
                sid = n["args"][0]
                continue
            return sid
        return sid

    def walk(self, sid):
        """pre-order over the subtree of sid (does not enter lambda bodies)."""
        stack = [sid]
        while stack:
            s = stack.pop()
            if s is None or s <= 0:
                continue
            yield s
            stack.extend(reversed(self.kids(s)))

    def parent_map(self):
        if self._parent is None:
            pm = {}
            for sid, n in self.stmts.items():
                for c in n.get("c", []):
                    if c and c > 0:
                        pm.setdefault(c, sid)
                for key in ("args",):
                    for c in n.get(key, []) or []:
                        if c and c > 0:
                            pm.setdefault(c, sid)
            self._parent = pm
        return self._parent

    def line(self, sid):
        l = self.stmts[sid].get("l", "")
        return l

    def short_loc(self, sid):
        l = self.stmts[sid].get("l", "")
        m = re.match(r"(.*?):(\d+):\d+$", l)
        if not m:
            return l
        return "%s:%s" % (m.group(1), m.group(2))

    # -------------------------------------------------------- access paths
    def path(self, sid):
        """access path of an lvalue-ish expression: 'this->a.b', 'p->x', 'v',
        'f()' for calls; None if not a path."""
        sid = self.strip(sid)
        if sid is None or sid <= 0:
            return None
        n = self.stmts[sid]
        k = n["k"]
        if k == "DeclRefExpr":
            return n["name"]
        if k == "CXXThisExpr":
            return "this"
        if k == "MemberExpr":
            ks = self.kids(sid)
            base = self.path(ks[0]) if ks else None
            if base is None:
                base = "?"
            return base + ("->" if n.get("arrow") else ".") + n["member"]
        if k == "UnaryOperator" and n.get("op") in ("*", "&"):
            p = self.path(self.kids(sid)[0])
            return None if p is None else (n["op"] + p)
        if k == "CXXOperatorCallExpr" and n.get("op") == "()":
            a = n.get("args", [])
            if a:
                p = self.path(a[0])
                lits = []
                for x in a[1:]:
                    xn = self.stmts[self.strip(x)]
                    if xn["k"] != "IntegerLiteral":
                        return None
                    lits.append(str(xn["value"]))
                if p is not None:
                    return "%s(%s)" % (p, ",".join(lits))
            return None
        if k == "ArraySubscriptExpr":
            ks = self.kids(sid)
            p = self.path(ks[0])
            ix = self.stmts[self.strip(ks[1])]
            if p is None:
                return None
            return p + ("[%s]" % ix["value"] if ix["k"] == "IntegerLiteral" else "[]")
        if k == "CXXOperatorCallExpr" and n.get("op") in ("[]", "*", "->"):
            a = n.get("args", [])
            if a:
                p = self.path(a[0])
                if p is not None:
                    return {"[]": p + "[]", "*": "*" + p, "->": p}[n["op"]]
        if k in ("CXXMemberCallExpr",):
            ce = self.strip(n.get("calleeExpr"))
            if ce and self.stmts[ce]["k"] == "MemberExpr":
                base = self.path(self.kids(ce)[0]) if self.kids(ce) else "?"
                return "%s%s%s()" % (base, "->" if self.stmts[ce].get("arrow") else ".",
                                     self.stmts[ce]["member"])
        if k == "CallExpr" and n.get("callee"):
            return n["callee"] + "()"
        return None

    def callee(self, sid):
        n = self.stmts[sid]
        return n.get("callee")

    def binop(self, sid):
        """(op, lhs, rhs) of a built-in, overloaded or C++20-rewritten binary
        operator expression, else None."""
        sid = self.strip(sid)
        if sid is None or sid <= 0:
            return None
        n = self.stmts[sid]
        k = n["k"]
        if k in ("BinaryOperator", "CompoundAssignOperator"):
            ks = self.kids(sid)
            return n["op"], ks[0], ks[1]
        if k == "CXXRewrittenBinaryOperator":
            return n["op"], n["lhs"], n["rhs"]
        if k == "CXXOperatorCallExpr" and len(n.get("args", [])) == 2 and n.get("op") not in ("()", "[]"):
            return n["op"], n["args"][0], n["args"][1]
        return None

    def is_call(self, sid):
        return self.stmts[sid]["k"] in ("CallExpr", "CXXMemberCallExpr",
                                        "CXXOperatorCallExpr", "CXXConstructExpr",
                                        "CXXTemporaryObjectExpr",
                                        "UserDefinedLiteral")

    def text(self, sid, depth=0):
        """compact pseudo-source of an expression for messages."""
        if sid is None or sid <= 0 or depth > TEXT_DEPTH[0]:
            return "?"
        n = self.stmts[sid]
        k = n["k"]
        if k in TRANSPARENT or (k.endswith("CastExpr")):
            ks = self.kids(sid)
            return self.text(ks[0], depth + 1) if ks else "?"
        if k == "DeclRefExpr":
            return n["name"]
        if k == "CXXThisExpr":
            return "this"
        if k == "MemberExpr":
            ks = self.kids(sid)
            b = self.text(ks[0], depth + 1) if ks else "?"
            return b + ("->" if n.get("arrow") else ".") + n["member"]
        if k in ("IntegerLiteral", "FloatingLiteral", "CXXBoolLiteralExpr", "CharacterLiteral"):
            return str(n.get("value")).lower() if k == "CXXBoolLiteralExpr" else str(n.get("value"))
        if k == "StringLiteral":
            return '"%s"' % n.get("value")
        if k in ("BinaryOperator", "CompoundAssignOperator"):
            ks = self.kids(sid)
            return "(%s %s %s)" % (self.text(ks[0], depth + 1), n["op"], self.text(ks[1], depth + 1))
        if k == "CXXRewrittenBinaryOperator":
            return "(%s %s %s)" % (self.text(n["lhs"], depth + 1), n["op"], self.text(n["rhs"], depth + 1))
        if k == "DeclStmt":
            return "; ".join("%s %s%s" % (d.get("type", ""), d.get("name", ""),
                                           (" = " + self.text(d["init"], depth + 1)) if d.get("init") else "")
                             for d in n.get("decls", []))
        if k == "UnaryOperator":
            ks = self.kids(sid)
            if n.get("postfix"):
                return self.text(ks[0], depth + 1) + n["op"]
            return n["op"] + self.text(ks[0], depth + 1)
        if k == "CXXOperatorCallExpr":
            a = n.get("args", [])
            if len(a) == 2 and n["op"] not in ("()", "[]"):
                return "(%s %s %s)" % (self.text(a[0], depth + 1), n["op"], self.text(a[1], depth + 1))
            if len(a) == 1:
                if n["op"] == "->":
                    return self.text(a[0], depth + 1)   # smart pointer: p->m reads like a raw pointer
                return n["op"] + self.text(a[0], depth + 1)
            if n["op"] == "[]":
                return "%s[%s]" % (self.text(a[0], depth + 1), self.text(a[1], depth + 1))
            return "%s(%s)" % (self.text(a[0], depth + 1), ", ".join(self.text(x, depth + 1) for x in a[1:]))
        if k == "CXXMemberCallExpr":
            ce = n.get("calleeExpr")
            return "%s(%s)" % (self.text(ce, depth + 1), ", ".join(self.text(x, depth + 1) for x in n.get("args", [])))
        if k == "CallExpr":
            return "%s(%s)" % (n.get("callee") or self.text(n.get("calleeExpr"), depth + 1),
                               ", ".join(self.text(x, depth + 1) for x in n.get("args", [])))
        if k in ("CXXConstructExpr", "CXXTemporaryObjectExpr"):
            return "%s{%s}" % (n.get("ctorClass"), ", ".join(self.text(x, depth + 1) for x in n.get("args", [])))
        if k == "ReturnStmt":
            ks = self.kids(sid)
            return "return " + (self.text(ks[0], depth + 1) if ks else "")
        if k == "ConditionalOperator":
            ks = self.kids(sid)
            return "(%s ? %s : %s)" % tuple(self.text(x, depth + 1) for x in ks[:3])
        if k == "CXXDefaultArgExpr":
            return "<default %s>" % n.get("param")
        if k == "LambdaExpr":
            return "<lambda>"
        if k == "ArraySubscriptExpr":
            ks = self.kids(sid)
            return "%s[%s]" % (self.text(ks[0], depth + 1), self.text(ks[1], depth + 1))
        return "<%s>" % k

    # ------------------------------------------------------------- CFG
    def elems(self, bid):
        return self.blocks[bid].elems

    def edges(self, bid):
        """[(succ, polarity)] polarity True/False for two-way conditional
        branches, None otherwise (switch successors carry their label)."""
        b = self.blocks[bid]
        res = []
        if self.abrupt(bid):
            return res          # throw / [[noreturn]] call: no normal successor
        two = b.cond is not None and len(b.succs) == 2 and b.termKind != "SwitchStmt" \
            and not b.tempDtorBranch
        cc = None
        if b.termKind == "IfStmt" and b.term is not None:
            cc = self.stmts[b.term].get("constCond")
        for i, s in enumerate(b.succs):
            if s is None:
                continue
            pol = None
            if two:
                pol = (i == 0)
            unr = b.unreach[i]
            if cc is not None and two and pol != cc:
                unr = True      # discarded arm of an 'if constexpr'
            res.append((s, pol, unr))
        return res

    def abrupt(self, bid):
        """the block ends in a throw expression or a [[noreturn]] call."""
        b = self.blocks[bid]
        if b.noreturn:
            return True
        for e in b.elems:
            if "s" in e and self.stmts[e["s"]]["k"] == "CXXThrowExpr":
                return True
        return False

    def reachable_blocks(self, include_unreachable_edges=False):
        seen = set()
        st = [self.entry]
        while st:
            b = st.pop()
            if b in seen or b not in self.blocks:
                continue
            seen.add(b)
            for s, pol, unr in self.edges(b):
                if unr and not include_unreachable_edges:
                    continue
                st.append(s)
        return seen

    def stmt_positions(self):
        """sid -> (block, index) for statements appearing as CFG elements."""
        pos = {}
        for b in self.blocks.values():
            for i, e in enumerate(b.elems):
                if "s" in e:
                    pos.setdefault(e["s"], (b.id, i))
        return pos


def load_functions(dumps):
    """dumps: {unit: json} -> list of Func; lambdas linked by parentFunc.
    Function ids are per unit: use (f.unit, f.id) as a key."""
    res = []
    for u, d in dumps.items():
        for f in d["functions"]:
            res.append(Func(f, u))
    return res


def children_of(funcs):
    """(unit, id) -> [lambda Funcs defined inside]."""
    m = defaultdict(list)
    for f in funcs:
        if f.parent is not None:
            m[(f.unit, f.parent)].append(f)
    return m


def by_qname(funcs):
    m = defaultdict(list)
    for f in funcs:
        m[f.qname].append(f)
    return m


# ------------------------------------------------------------ dataflow
def forward(fn, init, elem_fn, edge_fn=None, include_unreachable=False,
            max_states=200000, start=None):
    """Forward may-analysis over automaton states.

    init: iterable of initial states (hashable).
    elem_fn(state, block, index, elem) -> iterable of successor states
        (empty = path killed).
    edge_fn(state, block, succ, polarity) -> iterable of states.
    Returns IN: block id -> set of states at block entry, OUT likewise.
    Each (block, state) pair is processed once, so elem_fn may report.
    """
    IN = defaultdict(set)
    OUT = defaultdict(set)
    work = deque()
    start = fn.entry if start is None else start
    for s in init:
        IN[start].add(s)
        work.append((start, s))
    n = 0
    while work:
        bid, st = work.popleft()
        n += 1
        if n > max_states:
            raise RuntimeError("dataflow state explosion in " + fn.qname)
        b = fn.blocks[bid]
        cur = {st}
        for i, e in enumerate(b.elems):
            nxt = set()
            for s in cur:
                for s2 in elem_fn(s, b, i, e):
                    nxt.add(s2)
            cur = nxt
            if not cur:
                break
        if not cur:
            continue
        OUT[bid] |= cur
        for succ, pol, unr in fn.edges(bid):
            if unr and not include_unreachable:
                continue
            for s in cur:
                outs = edge_fn(s, b, succ, pol) if edge_fn else (s,)
                for s2 in outs:
                    if s2 not in IN[succ]:
                        IN[succ].add(s2)
                        work.append((succ, s2))
    return IN, OUT


# ------------------------------------------------- three-valued branch facts
def eval3(f, sid, facts, atom_fn):
    """value of a boolean expression under partial facts {atom: bool}."""
    s = f.strip(sid)
    n = f.stmts[s]
    a = atom_fn(f, s)
    if a is not None:
        name, neg = a
        v = facts.get(name)
        return None if v is None else (v != neg)
    if n["k"] == "UnaryOperator" and n.get("op") == "!":
        v = eval3(f, f.kids(s)[0], facts, atom_fn)
        return None if v is None else (not v)
    if n["k"] == "BinaryOperator" and n.get("op") in ("&&", "||"):
        l, r = f.kids(s)[:2]
        lv, rv = eval3(f, l, facts, atom_fn), eval3(f, r, facts, atom_fn)
        if n["op"] == "&&":
            if lv is False or rv is False:
                return False
            if lv is True and rv is True:
                return True
            return None
        if lv is True or rv is True:
            return True
        if lv is False and rv is False:
            return False
        return None
    if n["k"] == "CXXBoolLiteralExpr":
        return bool(n["value"])
    return None


def refine(f, sid, value, facts, atom_fn):
    """facts implied by 'expression sid has the given value' (unit propagation)."""
    s = f.strip(sid)
    n = f.stmts[s]
    a = atom_fn(f, s)
    facts = dict(facts)
    if a is not None:
        name, neg = a
        facts[name] = (value != neg)
        return facts
    if n["k"] == "UnaryOperator" and n.get("op") == "!":
        return refine(f, f.kids(s)[0], not value, facts, atom_fn)
    if n["k"] == "BinaryOperator" and n.get("op") in ("&&", "||"):
        l, r = f.kids(s)[:2]
        conj = n["op"] == "&&"
        if value == conj:       # (a&&b)=T or (a||b)=F : both determined
            facts = refine(f, l, value, facts, atom_fn)
            return refine(f, r, value, facts, atom_fn)
        lv, rv = eval3(f, l, facts, atom_fn), eval3(f, r, facts, atom_fn)
        if lv is not None and lv == conj:
            return refine(f, r, value, facts, atom_fn)
        if rv is not None and rv == conj:
            return refine(f, l, value, facts, atom_fn)
    return facts


def branch(f, b, pol, facts, atom_fn):
    """facts after taking the edge of polarity pol out of block b, or None if
    the edge is infeasible under the facts (only atoms listed by atom_fn)."""
    if pol is None or b.cond is None:
        return facts
    v = eval3(f, b.cond, facts, atom_fn)
    if v is not None and v != pol:
        return None
    return refine(f, b.cond, pol, facts, atom_fn)
