// positive control for the C46 rules: every rule must fire here
#include <semaphore.h>
#include <fcntl.h>
#include <fstream>
namespace mfront {
  struct MFrontLockGuard { MFrontLockGuard(); ~MFrontLockGuard(); };
  struct Other {
    sem_t* l;
    void leak() { ::sem_post(this->l); }                       // R1
    void create() { this->l = ::sem_open("/x", O_CREAT, 0600, 2); }  // R1+R2
    void enter() { ::sem_wait(this->l); }                      // R1+R3
    void temp() { MFrontLockGuard(); std::ofstream f("src/targets.lst"); }  // R4
    void late() { std::ofstream f("a"); MFrontLockGuard g; f << "x"; }      // R4
  };
}
