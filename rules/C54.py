"""C54 — mtest / ptest inputs never crash the driver: end-check discipline of the
token iterators (necessary condition: no dereference of an iterator that may
be the end of the token vector) + ownership.

 R1 TYPESTATE (lib/itstate.py) over the parser units of mtest/src and the
    tokenizer: a tokens_iterator is dereferenced only where it is known to
    differ from the end (branch, raise_if / throw_if, or a helper whose
    summary establishes it: checkNotEndOfLine, readSpecifiedToken ...);
    ++ / assignment / helpers that advance it reset that knowledge.  Keyword
    handlers are called through a table right after the keyword was consumed:
    their entry state is the dispatcher's state at the indirect call.
 R2 OWNERSHIP (lib/ownership.py) over the same units.
A file that ends in the middle of a construct must produce an error message,
not a read past the end of the token vector.
"""
import os, re
from common import *
from cfg import *
from itstate import Tracker
from ownership import check_ownership

RULE = ("typestate dataflow on the clang CFG: token iterators dereferenced only in state CHECKED; helper summaries "
        "computed from bodies; handler entry state = dispatcher state at the indirect call; ownership rule")
ITER = re.compile(r"__normal_iterator<const tfel::utilities::Token \*")


def rel(loc):
    return loc.replace(REPO + "/", "")


def units_for(tier):
    us = [u for u in units_under("mtest/src") if re.search(r"(Parser|Scheme|MTestMain|PipeTest)", os.path.basename(u))]
    us += [os.path.join(REPO, "src/Utilities/CxxTokenizer.cxx")]
    return sorted(set(us))


def analyse_units(rep, units, funcs_re, member=None):
    d = cfgdump(units, os.path.join(OUT, rep.pid, "dump"), funcs=funcs_re, root=REPO)
    funcs = load_functions(d)
    # one definition per (qname, signature): headers are seen from several units
    uniq = {}
    for f in funcs:
        uniq.setdefault((f.qname, tuple(p["type"] for p in f.params), f.loc, f.parent is not None and f.display), f)
    funcs = list(uniq.values())
    rep.count("units analysed", len(units))
    rep.count("functions analysed", len(funcs))
    tr = Tracker(funcs, lambda t: bool(ITER.search(t or "")), member=member)
    tr.compute_summaries()
    nreq = sum(1 for k, s in tr.summ.items() for v, e in s.items() if e[0])
    nens = sum(1 for k, s in tr.summ.items() for v, e in s.items() if e[1] == "C")
    rep.count("summaries: parameters required CHECKED", nreq)
    rep.count("summaries: helpers establishing CHECKED", nens)
    found = []

    def report(kind, f, sid, var, why):
        found.append((f, sid, var, why))
    nderef = 0
    for f in funcs:
        if f.parent is not None:
            continue
        has = any(n["k"] == "CXXOperatorCallExpr" and n.get("op") in ("*", "->") and tr.var_of(f, n["args"][0]) is not None
                  for n in f.stmts.values() if n.get("args"))
        if not has and not tr.tracked_params(f):
            continue
        nderef += sum(1 for n in f.stmts.values() if n["k"] == "CXXOperatorCallExpr" and n.get("op") in ("*", "->")
                      and n.get("args") and tr.var_of(f, n["args"][0]) is not None)
        try:
            tr.analyse(f, report=report)
        except RuntimeError as e:
            raise AnalysisBroken("%s: %s" % (f.qname, e))
    rep.count("iterator dereference sites", nderef)
    # handlers: address-taken methods
    taken = set()
    for f in funcs:
        for s, n in f.stmts.items():
            if n["k"] == "UnaryOperator" and n.get("op") == "&":
                k = f.stmts[f.strip(f.kids(s)[0])]
                if k["k"] == "DeclRefExpr" and k.get("declKind") == "CXXMethod":
                    taken.add(k["qname"])
    rep.count("handlers registered in tables", len(taken))
    unchecked_sites = [(f, sid, i) for f, sid, i, ok in tr.indirect if not ok]
    for f in funcs:
        if f.qname not in taken or f.parent is not None:
            continue
        summ = tr.summ.get(tr.key(f), {})
        for v, ent in summ.items():
            req = ent[0]
            if req and v != "M":
                # is there a dispatcher that calls handlers with an unchecked iterator?
                disp = [(g, s_) for g, s_, i in unchecked_sites if g.cls == f.cls or True]
                if disp:
                    g, s_ = disp[0]
                    found.append((f, f.body, [p["name"] for p in f.params if p["declId"] == v][0],
                                  "dereferenced by the handler before any end check, while the dispatcher %s calls its handlers "
                                  "with an iterator it has just advanced (%s)" % (g.qname, rel(g.short_loc(s_)))))
    return funcs, found


def run(tier):
    rep = Report("C54", tier, "other", RULE)
    units = units_for(tier)
    funcs, found = analyse_units(rep, units, r"^(mtest::|tfel::utilities::CxxTokenizer)")
    seen = set()
    for f, sid, var, why in found:
        if not f.qname.startswith("mtest::"):
            continue        # the tokenizer's own local iterators belong to C35; its helpers reach mtest through summaries
        loc = rel(f.short_loc(sid)) if sid in f.stmts else rel(f.loc)
        key = "UNCHECKED-DEREF@%s#%s" % (f.qname, var)
        if key in seen:
            continue
        seen.add(key)
        rep.fail(key, "%s: in %s the token iterator '%s' is %s on a path where it may be the end of the token vector (an input that "
                 "stops there reads past the end instead of raising)" % (loc, f.qname, var, why))
    n = rep.analysed.get("iterator dereference sites", 0)
    for _ in range(max(0, n - len(seen))):
        rep.ok("dereference in state CHECKED", sample=False)
    check_ownership(rep, funcs, rel)
    import borrow
    borrow.rule(rep, funcs, lambda t: bool(ITER.search(t or "")), rel, 0)
    rep.floor("iterator dereference sites", 150)
    rep.floor("summaries: helpers establishing CHECKED", 2)
    rep.assumptions += ["a necessary condition only: other sources of undefined behaviour and termination are not decided",
                        "iterators compared with any expression of iterator type are taken to be compared with the end of their sequence",
                        "public entry points are analysed with their iterator parameters as given by their in-tree callers"]
    return rep
