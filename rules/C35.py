"""C35 — mfront / mfront-query never crash: end-check discipline of the token
iterators of the DSL front ends (necessary condition) + ownership.

Same typestate engine as C54 (lib/itstate.py), with the member iterator
this->current of the DSL classes tracked besides local/parameter iterators:
checkNotEndOfFile(...) and the readSpecifiedToken family establish CHECKED (their
summaries are computed from their bodies); ++(this->current), assignments and
helpers that advance it reset it.  Keyword handlers are called through tables
with the state of the dispatcher at the indirect call.

Borrow rule (lib/borrow.py): a reference / pointer / string_view bound to an
element of the token vector through a token iterator is not used after a call
that may change that vector (direct insert/erase/clear/swap/assignment of the
'tokens' member, reached through resolved calls on *this; calls through the
handler tables and std::function reach every registered handler), including
in catch handlers of a try block containing such a call.
"""
import os, re
from common import *
from cfg import *
import C54
from ownership import check_ownership
import borrow

RULE = ("typestate dataflow on the clang CFG: token iterators (locals, parameters and the member this->current) are "
        "dereferenced only in state CHECKED; helper summaries from bodies; ownership rule")
# suppressions: one named symbol each, with the reason (confirmed by reading on 2026-09-22)
ACCEPTED = {
    "UNCHECKED-DEREF@mfront::SupportedTypes::parseType#current": "the template-argument loop is left only through 'c = false', which is set right after checkIteratorValidity(current, end) with no advance in between (flag correlation not tracked by the engine)",
    "UNCHECKED-DEREF@mfront::BehaviourDSLCommon::treatUnknownKeyword#this->current": "read only when no brick treated the keyword: a brick that returns {false, .} has not moved the iterator (contract of AbstractBehaviourBrick::treatKeyword), and the position was checked on entry",
    "UNCHECKED-DEREF@tfel::utilities::CxxTokenizer::printFileTokens#p": "guarded by the tokens.empty() early return (the engine does not relate empty() to begin() != end())",
    "UNCHECKED-DEREF@mfront::DSLBase::readSpecifiedValues#pt": "dead code (called only by its own overloads, which nothing calls); the eager (--pt) arguments restore the position",
    "UNCHECKED-DEREF@tfel::utilities::CxxTokenizer::operator[]#p": "index tested against size() by the raise_if that precedes std::next(begin(), i)",
}
ANCHORS = ("DSLBase.cxx", "BehaviourDSLCommon.cxx", "MaterialPropertyDSL.cxx", "ModelDSLCommon.cxx", "ImplicitDSLBase.cxx",
           "MFront.cxx", "main.cxx")


def rel(loc):
    return loc.replace(REPO + "/", "")


def run(tier):
    rep = Report("C35", tier, "other", RULE)
    allu = units_under("mfront/src")
    if tier == "thorough":
        units = allu + units_under("mfront-query/src")
    else:
        units = [u for u in allu if os.path.basename(u) in ANCHORS] + units_under("mfront-query/src")[:1]
    units.append(os.path.join(REPO, "src/Utilities/CxxTokenizer.cxx"))
    funcs, found = C54.analyse_units(rep, sorted(set(units)), r"^(mfront::|tfel::utilities::CxxTokenizer)", member="this->current")
    seen = set()
    for f, sid, var, why in found:
        loc = rel(f.short_loc(sid)) if sid in f.stmts else rel(f.loc)
        key = "UNCHECKED-DEREF@%s#%s" % (f.qname, var)
        if key in seen:
            continue
        seen.add(key)
        if key in ACCEPTED:
            rep.ok("accepted idiom %s: %s" % (key, ACCEPTED[key]))
            continue
        rep.fail(key, "%s: in %s the token iterator '%s' is %s on a path where it may be the end of the token stream"
                 % (loc, f.qname, var, why))
    n = rep.analysed.get("iterator dereference sites", 0)
    for _ in range(max(0, n - len(seen))):
        rep.ok("dereference in state CHECKED", sample=False)
    check_ownership(rep, funcs, rel)
    borrow.rule(rep, funcs, lambda t: bool(C54.ITER.search(t or "")), rel, 5)
    rep.floor("iterator dereference sites", 300)
    rep.assumptions += ["a necessary condition only: termination in bounded time and the other sources of undefined behaviour are not decided",
                        "quick tier: the anchor units; thorough: every unit of mfront/src and mfront-query/src"]
    return rep
