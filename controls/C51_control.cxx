// positive/negative controls for the NAN-SAFE and REFLEXIVE rules of C51 (not repository code)
#include <cmath>
#include <vector>
#include <memory>
namespace verif_ctl {
struct Col { std::vector<double> v; const std::vector<double>& getValues() const { return v; } };
struct Base { std::shared_ptr<Col> c1, c2; double prec = 0, precision2 = 0; bool success = true; };
struct Bad : Base {
  void compare() {
    bool s = true;
    for (std::size_t i = 0; i != this->c1->getValues().size(); ++i) {
      const double e = std::abs(this->c1->getValues()[i] - this->c2->getValues()[i]);
      if (e > this->prec) { s = false; }
    }
    if (!s) { this->success = false; }
  }
};
struct Good : Base {
  void compare() {
    bool s = true;
    for (std::size_t i = 0; i != this->c1->getValues().size(); ++i) {
      const double e = std::abs(this->c1->getValues()[i] - this->c2->getValues()[i]);
      if (!(e <= this->prec)) { s = false; }
    }
    if (!s) { this->success = false; }
  }
};
struct Mixed : Base {
  void compare() {
    bool s = true;
    for (std::size_t i = 0; i != this->c1->getValues().size(); ++i) {
      const auto va = this->c1->getValues().at(i);
      const auto vb = this->c2->getValues().at(i);
      const double e = std::abs(va - vb) - this->prec * vb - this->precision2;
      if (!(e <= 0)) { s = false; }
    }
    if (!s) { this->success = false; }
  }
};
}
void verif_use() { verif_ctl::Bad b; b.compare(); verif_ctl::Good g; g.compare(); verif_ctl::Mixed m; m.compare(); }
// control of the STATIC-STATE rule: a cache that outlives the check which filled it (must be reported); a static mutex is not state
#include <map>
#include <mutex>
#include <string>
namespace verif_ctl {
  inline int cached_length(const std::string& file) {
    static std::mutex m;
    static std::map<std::string, int> files;
    std::lock_guard<std::mutex> lock(m);
    auto p = files.find(file);
    if (p == files.end()) {
      p = files.insert({file, static_cast<int>(file.size())}).first;
    }
    return p->second;
  }
}
int verif_use2() { return verif_ctl::cached_length("a"); }
