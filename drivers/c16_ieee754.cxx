// shims for the bit-level IEEE-754 classifiers (C16)
#include "TFEL/Math/General/IEEE754.hxx"
namespace ie = tfel::math::ieee754;
extern "C" int verif_fpclassify_f(float x) { return ie::fpclassify(x); }
extern "C" int verif_fpclassify_d(double x) { return ie::fpclassify(x); }
extern "C" int verif_fpclassify_l(long double x) { return ie::fpclassify(x); }
extern "C" int verif_isnan_f(float x) { return ie::isnan(x); }
extern "C" int verif_isnan_d(double x) { return ie::isnan(x); }
extern "C" int verif_isnan_l(long double x) { return ie::isnan(x); }
extern "C" int verif_isfinite_f(float x) { return ie::isfinite(x); }
extern "C" int verif_isfinite_d(double x) { return ie::isfinite(x); }
extern "C" int verif_isfinite_l(long double x) { return ie::isfinite(x); }
