"""C35 — mfront / mfront-query never crash: end-check discipline of the token
iterators of the DSL front ends (necessary condition) + ownership.

Same typestate engine as C54 (lib/itstate.py), with the member iterator
this->current of the DSL classes tracked besides local/parameter iterators:
checkNotEndOfFile(...) and the readSpecifiedToken family establish CHECKED (their
summaries are computed from their bodies); ++(this->current), assignments and
helpers that advance it reset it.  Keyword handlers are called through tables
with the state of the dispatcher at the indirect call.

Borrow rule (lib/borrow.py): a reference / pointer / string_view bound to an
element of the token vector through a token iterator is not used after a call
that may change that vector (direct insert/erase/clear/swap/assignment of the
'tokens' member, reached through resolved calls on *this; calls through the
handler tables and std::function reach every registered handler), including
in catch handlers of a try block containing such a call.
"""
import os, re
from common import *
from cfg import *
import C54
from ownership import check_ownership
import borrow
import progress

RULE = ("typestate dataflow on the clang CFG: token iterators (locals, parameters and the member this->current) are "
        "dereferenced only in state CHECKED; helper summaries from bodies; ownership rule")
# suppressions: one named symbol each, with the reason (confirmed by reading on 2026-09-22)
ACCEPTED = {
    "UNCHECKED-DEREF@mfront::BehaviourDSLCommon::treatElasticMaterialProperties#this->current": "readElasticMaterialPropertiesI copies this->current into a local, checks the copy (checkNotEndOfLine) and only then reads through this->current, which still equals the copy (the engine does not relate an iterator to its unmodified copy)",
    "UNCHECKED-INCREMENT@mfront::BehaviourDSLCommon::treatUnknownKeyword#this->current": "same reason as the dereference just before it (accepted below): when no brick treated the keyword the iterator has not moved since checkNotEndOfFile, and it was just dereferenced ('[')",
    "UNCHECKED-DEREF@mfront::SupportedTypes::parseType#current": "the template-argument loop is left only through 'c = false', which is set right after checkIteratorValidity(current, end) with no advance in between (flag correlation not tracked by the engine)",
    "UNCHECKED-DEREF@mfront::BehaviourDSLCommon::treatUnknownKeyword#this->current": "read only when no brick treated the keyword: a brick that returns {false, .} has not moved the iterator (contract of AbstractBehaviourBrick::treatKeyword), and the position was checked on entry",
    "UNCHECKED-DEREF@tfel::utilities::CxxTokenizer::printFileTokens#p": "guarded by the tokens.empty() early return (the engine does not relate empty() to begin() != end())",
    "UNCHECKED-DEREF@mfront::DSLBase::readSpecifiedValues#pt": "dead code (called only by its own overloads, which nothing calls); the eager (--pt) arguments restore the position",
    "UNCHECKED-DEREF@tfel::utilities::CxxTokenizer::operator[]#p": "index tested against size() by the raise_if that precedes std::next(begin(), i)",
}
ANCHORS = ("DSLBase.cxx", "BehaviourDSLCommon.cxx", "MaterialPropertyDSL.cxx", "ModelDSLCommon.cxx", "ImplicitDSLBase.cxx",
           "MFront.cxx", "main.cxx")


def rel(loc):
    return loc.replace(REPO + "/", "")


INTTYPE = re.compile(r"^(const )?(unsigned |signed )?(int|long|short|char|unsigned|std::size_t|size_t|unsigned short|unsigned long|long long|"
                     r"unsigned int|std::vector<.*>::size_type|\w+(::\w+)*::size_type)\b")


def lineno(f, sid):
    m = re.search(r":(\d+)(?::\d+)?$", f.short_loc(sid))
    return int(m.group(1)) if m else 0


def crash_rules(rep, funcs):
    """three further necessary conditions of 'never crashes', over the same functions:
     INT-DIV: an integer division or remainder whose divisor is not a non-zero constant is dominated by a test of the divisor against
       zero (SIGFPE otherwise: '@StateVariable real a[3/0];');
     CHECK-AFTER-DECREMENT: an iterator is not decremented and *then* compared with begin() (the test belongs before the decrement:
       decrementing begin() is undefined);
     RECURSIVE-FILE-ANALYSIS: every analyseFile of a DSL class constructs the cycle guard (a local whose constructor raises when the
       file is already under analysis and registers it) before it opens the file: a file that includes itself through @MaterialLaw,
       @Model or @BehaviourVariable would otherwise recurse until the stack is exhausted."""
    from cfg import forward, branch
    ndiv = 0
    for f in funcs:
        divs = []
        for s_, n in f.stmts.items():
            if n["k"] in ("BinaryOperator", "CompoundAssignOperator") and n.get("op") in ("/", "%", "/=", "%="):
                ks = f.kids(s_)
                t, tr = (n.get("t") or ""), (f.stmts.get(f.strip(ks[1]), {}).get("t") or "")
                if INTTYPE.match(t) and INTTYPE.match(tr):
                    dn = f.stmts.get(f.strip(ks[1]))
                    if dn["k"] == "IntegerLiteral":
                        continue
                    if dn["k"] == "DeclRefExpr" and "const" in (dn.get("declType") or "") and not dn.get("parm"):
                        continue        # a named constant
                    divs.append((s_, f.strip(ks[1])))
        if not divs or f.entry is None:
            continue

        def atom(f_, s):
            bo = f_.binop(s)
            if bo and bo[0] in ("==", "!="):
                l, r = f_.stmts.get(f_.strip(bo[1])), f_.stmts.get(f_.strip(bo[2]))
                for a, b in ((l, r), (r, l)):
                    if b is not None and b["k"] == "IntegerLiteral" and int(b.get("value")) == 0 and a is not None:
                        return (("zero", f_.text(f_.strip(bo[1] if a is l else bo[2]))), bo[0] == "!=")
            return None
        bad = []

        def el(st, b, i, e):
            if "s" in e:
                n_ = f.stmts[e["s"]]
                if n_["k"] == "CallExpr" and (n_.get("callee") or "").split("<")[0].endswith("raise_if") and n_.get("args"):
                    # raise_if(c, ...) returns only when c is false
                    from cfg import refine
                    fx = refine(f, f.strip(n_["args"][0]), False, dict(st), atom)
                    if fx is None:
                        return ()
                    st = tuple(sorted(fx.items(), key=repr))
                for s_, dv in divs:
                    if e["s"] == s_ and dict(st).get(("zero", f.text(dv))) is not False:
                        bad.append((s_, f.text(dv)))
            return (st,)

        def ed(st, b, succ, pol):
            fx = branch(f, b, pol, dict(st), atom)
            return () if fx is None else (tuple(sorted(fx.items(), key=repr)),)
        forward(f, ((),), el, ed)
        ndiv += len(divs)
        if bad:
            s_, dv = bad[0]
            rep.fail("INT-DIV@%s" % f.qname, "%s: %s divides integers by '%s' without testing it against zero: a zero divisor taken from the "
                     "input kills the process with SIGFPE" % (rel(f.short_loc(s_)), f.qname, dv))
        else:
            rep.ok("%s: integer divisions are guarded" % f.qname, sample=False)
    rep.count("integer divisions by a non-constant", ndiv)
    # CHECK-AFTER-DECREMENT
    nd = 0
    for f in funcs:
        pos = f.stmt_positions() if f.entry is not None else {}
        for s_, n in sorted(f.stmts.items()):
            if not (n["k"] in ("UnaryOperator", "CXXOperatorCallExpr") and n.get("op") == "--"):
                continue
            tgt = f.kids(s_)[0] if n["k"] == "UnaryOperator" else (n.get("args") or [None])[0]
            tn = f.stmts.get(f.strip(tgt)) if tgt is not None else None
            if tn is None or tn["k"] != "DeclRefExpr" or not tn.get("local") or "iterator" not in (tn.get("declType") or ""):
                continue
            nd += 1
            # the first use of the iterator after the decrement: a comparison with begin() (the test comes too late) or anything else
            pm = f.parent_map()
            uses = sorted(y for y, m in f.stmts.items() if y > s_ and m["k"] == "DeclRefExpr" and m.get("declId") == tn["declId"] and lineno(f, y) >= lineno(f, s_))

            def inside(y):
                q = y
                for _ in range(6):
                    if q == s_:
                        return True
                    q = pm.get(q)
                    if q is None:
                        return False
                return False
            uses = [y for y in uses if not inside(y)]
            if uses:
                y = uses[0]
                # climb to the enclosing comparison, if any
                q, hit = y, None
                for _ in range(4):
                    q = pm.get(q)
                    if q is None:
                        break
                    bo = f.binop(q)
                    if bo and bo[0] in ("!=", "=="):
                        sides = [f.stmts.get(f.strip(bo[1])), f.stmts.get(f.strip(bo[2]))]
                        if any(x is not None and x["k"] == "CXXMemberCallExpr" and (x.get("callee") or "").rsplit("::", 1)[-1] in ("begin", "cbegin") for x in sides):
                            hit = q
                        break
                if hit is not None:
                    rep.fail("CHECK-AFTER-DECREMENT@%s#%s" % (f.qname.split("(")[0], tn["name"]), "%s: %s decrements '%s' and only then compares it with begin(): "
                             "when it was begin() the decrement is already undefined (and the element before the first is read)"
                             % (rel(f.short_loc(s_)), f.qname.split("(")[0], tn["name"]))
    rep.count("decrements of local iterators", nd)
    # RECURSIVE-FILE-ANALYSIS
    na = 0
    ctors = {}
    for f in funcs:
        if f.parent is None:
            ctors.setdefault(f.qname, []).append(f)
    for f in funcs:
        # every function that starts the analysis of another file: the analyseFile of each DSL family and the @Import handler
        if f.parent is not None or f.entry is None or f.qname.split("(")[0].endswith("::importFile"):
            continue
        opens = [s_ for s_, n in f.stmts.items() if n["k"] == "CXXMemberCallExpr" and (n.get("callee") or "").rsplit("::", 1)[-1] in ("importFile",)]
        if not opens and f.qname.endswith("::analyseFile"):
            opens = [s_ for s_, n in f.stmts.items() if n["k"] == "CXXMemberCallExpr" and (n.get("callee") or "").rsplit("::", 1)[-1] in ("openFile",)]
        if not opens:
            continue
        na += 1
        guarded = False
        for s_, n in sorted(f.stmts.items()):
            if n["k"] != "DeclStmt" or lineno(f, s_) > max(lineno(f, o_) for o_ in opens):
                continue
            for dd in n["decls"]:
                ce = f.stmts.get(f.strip(dd["init"])) if "init" in dd else None
                if ce is None or ce["k"] != "CXXConstructExpr":
                    continue
                for g in ctors.get(ce.get("callee") or "", []):
                    raises = any(m["k"] == "CXXThrowExpr" or (m["k"] == "CallExpr" and (m.get("callee") or "").split("<")[0].endswith(("raise_if", "raise")))
                                 for m in g.stmts.values())
                    registers = any(m["k"] == "CXXMemberCallExpr" and (m.get("callee") or "").rsplit("::", 1)[-1] in ("push_back", "insert", "emplace_back", "emplace")
                                    for m in g.stmts.values())
                    if raises and registers:
                        guarded = True
        if guarded:
            rep.ok("%s registers the file in the cycle guard before opening it" % f.qname)
        else:
            rep.fail("RECURSIVE-FILE-ANALYSIS@%s" % f.qname, "%s: %s opens the file without registering it in a cycle guard: a file that includes itself "
                     "(@MaterialLaw, @Model, @BehaviourVariable naming the file being treated) is analysed again and again until the stack is "
                     "exhausted" % (rel(f.loc), f.qname))
    rep.count("analyseFile implementations", na)
    rep.floor("analyseFile implementations", 3)
    rep.floor("decrements of local iterators", 3)
    rep.floor("integer divisions by a non-constant", 1)


def lock_unwind_rule(rep):
    """LOCK-UNWIND: mfront holds a machine-wide named semaphore (MFrontLockGuard, an automatic object) around its writes; if an exception
    leaves main uncaught, std::terminate is called without unwinding the stack, the semaphore stays taken and every later run of mfront
    waits for it for ever.  Rule: in main, every call that reaches MFront::exe (directly or through a closure) lies in a try block with a
    catch-all handler; the only tolerated exception is the branch under the explicit '--no-terminate-handler' option."""
    d = cfgdump([os.path.join(REPO, "mfront/src/main.cxx")], os.path.join(OUT, "C35", "dumpmain"), funcs=r"^main", root=REPO)
    fs = load_functions(d)
    mains = [f for f in fs if f.qname == "main" and f.parent is None]
    if len(mains) != 1:
        raise AnalysisBroken("main of mfront not found")
    m = mains[0]
    lam = {(f.unit, f.id): f for f in fs if f.parent is not None}

    def reaches_exe(g):
        return any(n["k"] == "CXXMemberCallExpr" and (n.get("callee") or "").endswith("MFront::exe") for n in g.stmts.values())
    sites = []
    for s_, n in m.stmts.items():
        if n["k"] == "CXXMemberCallExpr" and (n.get("callee") or "").endswith("MFront::exe"):
            sites.append(s_)
        if n["k"] == "CXXOperatorCallExpr" and n.get("op") == "()":
            g = lam.get((m.unit, n.get("calleeId")))
            if g is not None and reaches_exe(g):
                sites.append(s_)
    if not sites:
        raise AnalysisBroken("main: no call reaching MFront::exe")
    pm = m.parent_map()
    guarded = 0
    for s_ in sites:
        q, ok, optout = s_, False, False
        while q in pm:
            c = q
            q = pm[q]
            k = m.stmts[q]["k"]
            if k == "CXXTryStmt" and m.kids(q) and m.kids(q)[0] == c:
                ok = True       # in the try body; that one of the handlers is the catch-all is checked below
            if k == "IfStmt" and "--no-terminate-handler" in m.text(m.stmts[q]["cond"]):
                optout = True
        rep.count("calls of main reaching MFront::exe")
        if ok:
            guarded += 1
            rep.ok("main: the call reaching MFront::exe at %s is in a try block (the stack is unwound, the lock released)" % rel(m.short_loc(s_)))
        elif optout:
            rep.ok("main: the call at %s is the explicit --no-terminate-handler opt-out" % rel(m.short_loc(s_)))
        else:
            rep.fail("LOCK-UNWIND@main", "%s: main calls MFront::exe outside any try block: an exception thrown while the inter-process lock is held "
                     "(MFrontLockGuard, e.g. an unwritable src/targets.lst.tmp) reaches std::terminate, the stack is not unwound, the semaphore "
                     "stays taken and every later run of mfront by this user blocks for ever" % rel(m.short_loc(s_)))
    if guarded == 0 and not any(v["key"] == "LOCK-UNWIND@main" for v in rep.violations):
        rep.fail("LOCK-UNWIND@main", "no call of main reaching MFront::exe is in a try block")
    src = open(os.path.join(REPO, "mfront/src/main.cxx")).read()
    if guarded and not re.search(r"catch\s*\(\s*\.\.\.\s*\)", src):
        rep.fail("LOCK-UNWIND@main#catch-all", "main has no catch (...) handler")


def query_main_rule(rep):
    """MAIN-CATCHES (mfront-query): in the compiled configuration every call of main into the mfront:: namespace (constructions included) lies
    in a try block: an invalid input file ends in a failure status, not in std::terminate (SIGABRT, and the mfront lock left taken)."""
    d = cfgdump([os.path.join(REPO, "mfront-query/src/mfront-query.cxx")], os.path.join(OUT, "C35", "dumpqmain"), funcs=r"^main$", root=REPO)
    ms = [f for f in load_functions(d) if f.qname == "main" and f.parent is None]
    if len(ms) != 1:
        raise AnalysisBroken("main of mfront-query not found")
    m = ms[0]
    pm = m.parent_map()
    n_in = n_out = 0
    first_out = None
    for s_, n in sorted(m.stmts.items()):
        cal = n.get("callee") or ""
        if re.match(r"^mfront::init[A-Z]\w*$", cal):
            continue        # start-up registration of the DSLs and interfaces: it does not depend on the input
        if n["k"] in ("CallExpr", "CXXMemberCallExpr", "CXXConstructExpr") and cal.startswith("mfront::") and not n.get("noexcept"):
            q, ok = s_, False
            while q in pm:
                c = q
                q = pm[q]
                if m.stmts[q]["k"] == "CXXTryStmt" and m.kids(q) and m.kids(q)[0] == c:
                    ok = True
            if ok:
                n_in += 1
            else:
                n_out += 1
                first_out = first_out or s_
    rep.count("calls of mfront-query's main into mfront::", n_in + n_out)
    if n_out:
        rep.fail("MAIN-CATCHES@mfront-query main", "%s: main of mfront-query calls %s outside any try block (%d such calls in the configuration that is "
                 "compiled): an error reported by an exception - any invalid input file - ends in std::terminate and mfront-query is killed "
                 "by SIGABRT" % (rel(m.short_loc(first_out)), m.stmts[first_out].get("callee"), n_out))
    else:
        rep.ok("main of mfront-query makes its %d calls into mfront:: inside a try block" % n_in)
    rep.floor("calls of mfront-query's main into mfront::", 5)


def deref_under_end_rule(rep, units):
    """DEREF-UNDER-END (contradiction rule): inside the branch taken when an iterator equals the end() of a container, that iterator is
    not dereferenced.  Over every function (closures included) of mfront-query, whose queries look names up in the description."""
    d = cfgdump(units, os.path.join(OUT, "C35", "dumpquery"), funcs=r"^(mfront::|main)", root=REPO)
    nif = 0
    for f in load_functions(d):
        for s_, n in f.stmts.items():
            if n["k"] != "IfStmt":
                continue
            bo = f.binop(n["cond"])
            if not bo or bo[0] != "==":
                continue
            it = None
            for a, b in ((bo[1], bo[2]), (bo[2], bo[1])):
                bn = f.stmts.get(f.strip(b))
                an = f.stmts.get(f.strip(a))
                if bn is not None and bn["k"] == "CXXMemberCallExpr" and (bn.get("callee") or "").rsplit("::", 1)[-1] in ("end", "cend") and \
                        an is not None and an["k"] == "DeclRefExpr" and an.get("local"):
                    it = an
            if it is None:
                continue
            nif += 1
            ks = [k for k in f.kids(s_) if k > 0]
            then = ks[-2] if len(ks) >= 3 else ks[-1]       # cond, then[, else]
            if len(ks) >= 2 and ks[-1] != n["cond"]:
                then = ks[1] if ks[0] == n["cond"] else then
            hit = None
            for x in sorted(f.walk(then)):
                m = f.stmts[x]
                if m["k"] == "CXXOperatorCallExpr" and m.get("op") in ("->", "*") and m.get("args"):
                    a0 = f.stmts.get(f.strip(m["args"][0]))
                    if a0 is not None and a0["k"] == "DeclRefExpr" and a0.get("declId") == it.get("declId"):
                        hit = x
                        break
                bo2 = f.binop(x)
                if bo2 and bo2[0] == "=" and f.stmts.get(f.strip(bo2[1]), {}).get("declId") == it.get("declId"):
                    break
            if hit is not None:
                rep.fail("DEREF-UNDER-END@%s#%s" % (f.qname.split("(")[0][:80], it.get("name")), "%s: '%s' is dereferenced inside the branch taken when it equals "
                         "end(): looking up a name that is absent reads past the container (segmentation fault of mfront-query)"
                         % (rel(f.short_loc(hit)), it.get("name")))
    rep.count("branches on 'iterator == end()' examined", nif)
    rep.floor("branches on 'iterator == end()' examined", 3)


def run(tier):
    rep = Report("C35", tier, "other", RULE)
    allu = units_under("mfront/src")
    if tier == "thorough":
        units = allu + units_under("mfront-query/src")
    else:
        units = [u for u in allu if os.path.basename(u) in ANCHORS] + units_under("mfront-query/src")[:1]
    units.append(os.path.join(REPO, "src/Utilities/CxxTokenizer.cxx"))
    units.append(os.path.join(REPO, "src/Utilities/Data.cxx"))      # options of DSLs, bricks and models: '{a: 1, b: {...}}' 
    units += [u for u in units_under("src/Math") if "IntegerEvaluator" in os.path.basename(u)]
    units += [u for u in allu if os.path.basename(u) in ("ModelDSL.cxx",)]
    funcs, found = C54.analyse_units(rep, sorted(set(units)), r"^(mfront::|tfel::utilities::CxxTokenizer|tfel::utilities::Data|tfel::math::IntegerEvaluator)", member="this->current", check_increment=True, check_singular=True)
    seen = set()
    for f, sid, var, why in found:
        loc = rel(f.short_loc(sid)) if sid in f.stmts else rel(f.loc)
        if why.startswith("assigned to"):
            key = "SINGULAR-ITERATOR@%s#%s" % (f.qname, var)
            if key not in seen:
                seen.add(key)
                rep.fail(key, "%s: in %s the iterator '%s', declared without a value, is %s: the parser then continues from a singular iterator "
                         "(the next read is a null or wild dereference)" % (loc, f.qname, var, why))
            continue
        if why == "incremented":
            key = "UNCHECKED-INCREMENT@%s#%s" % (f.qname, var)
            if key in seen:
                continue
            seen.add(key)
            if key in ACCEPTED:
                rep.ok("accepted idiom %s: %s" % (key, ACCEPTED[key]))
                continue
            rep.fail(key, "%s: in %s the token iterator '%s' is incremented on a path where it may already be the end of the token stream: it "
                     "moves past the end and the next end test does not fire" % (loc, f.qname, var))
            continue
        key = "UNCHECKED-DEREF@%s#%s" % (f.qname, var)
        if key in seen:
            continue
        seen.add(key)
        if key in ACCEPTED:
            rep.ok("accepted idiom %s: %s" % (key, ACCEPTED[key]))
            continue
        rep.fail(key, "%s: in %s the token iterator '%s' is %s on a path where it may be the end of the token stream"
                 % (loc, f.qname, var, why))
    n = rep.analysed.get("iterator dereference sites", 0)
    for _ in range(max(0, n - len(seen))):
        rep.ok("dereference in state CHECKED", sample=False)
    check_ownership(rep, funcs, rel)
    borrow.rule(rep, funcs, lambda t: bool(C54.ITER.search(t or "")), rel, 5)
    crash_rules(rep, funcs)
    progress.rule(rep, funcs, rel, ACCEPTED)
    # the libraries mfront reads its input with (tokenizer, Data, argument parsing, formula and integer evaluators, glossary)
    lib = units_under("src/Utilities")
    if tier == "thorough":
        lib += [u for u in units_under("src/Math") if re.search(r"(Evaluator|Parser|parser)", u)] + units_under("src/Glossary", "src/UnicodeSupport")
        lib += [u for u in units_under("src/System") if "ExternalLibraryManager" in u or "LibraryInformation" in u]
    progress.scan(rep, sorted(set(lib)), r"^tfel::", rel, ACCEPTED, "libraries")
    rep.floor("loops examined for progress (libraries)", 25)
    rep.floor("loops examined for progress", 60)
    lock_unwind_rule(rep)
    query_main_rule(rep)
    deref_under_end_rule(rep, units_under("mfront-query/src"))
    C54.smart_pointer_rule(rep, funcs, scope_re=r"^mfront::.*::(treat|set|add|register|handle)[A-Z]\w*$", accepted=ACCEPTED, what="mfront")
    rep.floor("iterator dereference sites", 300)
    rep.assumptions += ["a necessary condition only: of termination, only 'no loop has a state-preserving trip' (LOOP-PROGRESS) and 'no unguarded recursion on files' are decided; the other sources of undefined behaviour are not decided",
                        "quick tier: the anchor units; thorough: every unit of mfront/src and mfront-query/src"]
    return rep
