// cfgdump: libTooling front end of Engine A/D.
//
// For every translation unit given on the command line it writes one JSON
// document describing, for the selected functions of the *resolved* program
// (template instantiations and lambdas included): the statement table (AST
// nodes with resolved callees, members, declarations, literals and types) and
// the clang::CFG (blocks, ordered elements, terminators, successors with
// branch polarity, implicit destructors, initialisers).  All rule logic lives
// in python (lib/cfg.py, rules/*.py); this file contains no rule.
//
// usage: cfgdump -o out.json [--funcs=<regex>] [--calls] [--records=<regex>]
//                [--root=/repo] file.cxx -- <compiler flags>
#include "clang/AST/ASTConsumer.h"
#include "clang/AST/ASTContext.h"
#include "clang/AST/DeclCXX.h"
#include "clang/AST/DeclTemplate.h"
#include "clang/AST/ExprCXX.h"
#include "clang/AST/RecursiveASTVisitor.h"
#include "clang/AST/StmtCXX.h"
#include "clang/Analysis/CFG.h"
#include "clang/Frontend/CompilerInstance.h"
#include "clang/Frontend/FrontendAction.h"
#include "clang/Tooling/CommonOptionsParser.h"
#include "clang/Tooling/Tooling.h"
#include "llvm/Support/CommandLine.h"
#include "llvm/Support/JSON.h"
#include "llvm/Support/Regex.h"
#include "llvm/Support/raw_ostream.h"
#include <map>
#include <set>

using namespace clang;
using namespace clang::tooling;
namespace json = llvm::json;

static llvm::cl::OptionCategory Cat("cfgdump options");
static llvm::cl::opt<std::string> OutFile("o", llvm::cl::desc("output file"),
                                          llvm::cl::cat(Cat),
                                          llvm::cl::init("-"));
static llvm::cl::opt<std::string> FuncRe(
    "funcs", llvm::cl::desc("regex on qualified function names (detailed)"),
    llvm::cl::cat(Cat), llvm::cl::init(""));
static llvm::cl::opt<std::string> RecRe(
    "records", llvm::cl::desc("regex on qualified record names"),
    llvm::cl::cat(Cat), llvm::cl::init(""));
static llvm::cl::opt<std::string> Root(
    "root", llvm::cl::desc("only functions defined under this path prefix"),
    llvm::cl::cat(Cat), llvm::cl::init(""));
static llvm::cl::opt<std::string> VarRe(
    "vars", llvm::cl::desc("regex on qualified names of namespace-scope/static variables (initialisers)"),
    llvm::cl::cat(Cat), llvm::cl::init(""));
static llvm::cl::opt<bool> Calls(
    "calls", llvm::cl::desc("light dump of call edges for all functions"),
    llvm::cl::cat(Cat), llvm::cl::init(false));

namespace {

struct Dumper {
  ASTContext &Ctx;
  SourceManager &SM;
  PrintingPolicy PP;
  std::map<const Decl *, int> declIds;
  json::Array functions, records, light, vars;
  std::set<const FunctionDecl *> done;
  llvm::Regex funcRe, recRe, varRe;

  explicit Dumper(ASTContext &C)
      : Ctx(C), SM(C.getSourceManager()), PP(C.getLangOpts()),
        funcRe(FuncRe.empty() ? std::string("^$") : FuncRe.getValue()),
        recRe(RecRe.empty() ? std::string("^$") : RecRe.getValue()),
        varRe(VarRe.empty() ? std::string("^$") : VarRe.getValue()) {
    PP.SuppressTagKeyword = true;
    PP.Bool = true;
    PP.SuppressUnwrittenScope = true;
  }

  int declId(const Decl *D) {
    if (!D) return -1;
    D = D->getCanonicalDecl();
    auto it = declIds.find(D);
    if (it != declIds.end()) return it->second;
    int n = (int)declIds.size() + 1;
    declIds[D] = n;
    return n;
  }

  std::string fileOf(SourceLocation L) {
    if (L.isInvalid()) return "";
    L = SM.getExpansionLoc(L);
    PresumedLoc P = SM.getPresumedLoc(L);
    if (P.isInvalid()) return "";
    return P.getFilename();
  }
  std::string loc(SourceLocation L) {
    if (L.isInvalid()) return "";
    L = SM.getExpansionLoc(L);
    PresumedLoc P = SM.getPresumedLoc(L);
    if (P.isInvalid()) return "";
    return (llvm::Twine(P.getFilename()) + ":" + llvm::Twine(P.getLine()) +
            ":" + llvm::Twine(P.getColumn()))
        .str();
  }
  std::string typeStr(QualType T) {
    if (T.isNull()) return "";
    return T.getCanonicalType().getAsString(PP);
  }
  std::string qname(const NamedDecl *D) {
    if (!D) return "";
    return D->getQualifiedNameAsString();
  }
  std::string display(const FunctionDecl *F) {
    std::string s;
    llvm::raw_string_ostream os(s);
    F->getNameForDiagnostic(os, PP, true);
    return os.str();
  }
  bool underRoot(const FunctionDecl *F) {
    if (Root.empty()) return true;
    std::string f = fileOf(F->getLocation());
    return llvm::StringRef(f).startswith(Root);
  }
  static bool isNoexcept(const FunctionDecl *F) {
    if (auto *FPT = F->getType()->getAs<FunctionProtoType>())
      return isNoexceptExceptionSpec(FPT->getExceptionSpecType()) &&
             FPT->canThrow() == CT_Cannot;
    return false;
  }

  // ---------------------------------------------------------------- stmts
  struct FnCtx {
    std::map<const Stmt *, int> ids;
    json::Object table;
    std::vector<const LambdaExpr *> lambdas;
  };

  void calleeInfo(json::Object &o, const FunctionDecl *FD) {
    if (!FD) return;
    o["callee"] = qname(FD);
    o["calleeDisplay"] = display(FD);
    o["calleeId"] = declId(FD);
    if (FD->isNoReturn()) o["noreturn"] = true;
    if (isNoexcept(FD)) o["noexcept"] = true;
    if (auto *MD = dyn_cast<CXXMethodDecl>(FD)) {
      o["calleeClass"] = qname(MD->getParent());
      if (MD->isVirtual()) o["virtual"] = true;
      if (MD->isConst()) o["constMethod"] = true;
      if (MD->isStatic()) o["staticMethod"] = true;
    }
    o["calleeFile"] = fileOf(FD->getLocation());
    json::Array pts;
    for (auto *P : FD->parameters()) pts.push_back(typeStr(P->getType()));
    o["calleeParamTypes"] = std::move(pts);
    // non-canonical parameter types as written (to recognise enum typedefs)
    json::Array ptw;
    for (auto *P : FD->parameters())
      ptw.push_back(P->getType().getAsString(PP));
    o["calleeParamTypesW"] = std::move(ptw);
    if (FD->isDeleted()) o["deleted"] = true;
  }

  int stmtId(FnCtx &C, const Stmt *S) {
    if (!S) return -1;
    auto it = C.ids.find(S);
    if (it != C.ids.end()) return it->second;
    int n = (int)C.ids.size() + 1;
    C.ids[S] = n;
    json::Object o;
    o["k"] = S->getStmtClassName();
    o["l"] = loc(S->getBeginLoc());
    if (auto *E = dyn_cast<Expr>(S)) {
      o["t"] = typeStr(E->getType());
      if (E->isLValue()) o["lv"] = true;
    }
    // children first (ids assigned depth first)
    json::Array ch;
    if (auto *L = dyn_cast<LambdaExpr>(S)) {
      C.lambdas.push_back(L);
      o["lambdaOp"] = declId(L->getCallOperator());
      json::Array caps;
      for (auto &cap : L->captures()) {
        json::Object c;
        if (cap.capturesThis())
          c["this"] = true;
        else if (cap.capturesVariable()) {
          c["var"] = cap.getCapturedVar()->getNameAsString();
          c["varId"] = declId(cap.getCapturedVar());
        }
        c["byRef"] = cap.getCaptureKind() == LCK_ByRef;
        caps.push_back(std::move(c));
      }
      o["captures"] = std::move(caps);
      for (auto *I : L->capture_inits()) ch.push_back(stmtId(C, I));
    } else {
      for (const Stmt *K : S->children()) ch.push_back(stmtId(C, K));
    }
    o["c"] = std::move(ch);
    // kind-specific
    if (auto *DR = dyn_cast<DeclRefExpr>(S)) {
      const ValueDecl *D = DR->getDecl();
      o["name"] = D->getNameAsString();
      o["qname"] = qname(D);
      o["declId"] = declId(D);
      o["declKind"] = D->getDeclKindName();
      if (auto *VD = dyn_cast<VarDecl>(D)) {
        if (VD->isLocalVarDeclOrParm()) o["local"] = true;
        if (isa<ParmVarDecl>(VD)) o["parm"] = true;
        o["declType"] = typeStr(VD->getType());
        if (VD->getType()->isReferenceType()) o["ref"] = true;
        if (VD->hasGlobalStorage()) {
          o["globalStorage"] = true;
          if (VD->getTLSKind() != VarDecl::TLS_None) o["tls"] = true;
          if (VD->getType().isConstQualified() || VD->isConstexpr()) o["constVar"] = true;
        }
      }
      if (auto *EC = dyn_cast<EnumConstantDecl>(D))
        o["enumValue"] = (int64_t)EC->getInitVal().getExtValue();
      if (auto *FD = dyn_cast<FunctionDecl>(D)) calleeInfo(o, FD);
    } else if (auto *ME = dyn_cast<MemberExpr>(S)) {
      const ValueDecl *D = ME->getMemberDecl();
      o["member"] = D->getNameAsString();
      o["qname"] = qname(D);
      o["declId"] = declId(D);
      o["declKind"] = D->getDeclKindName();
      o["arrow"] = ME->isArrow();
      if (auto *FD = dyn_cast<FieldDecl>(D)) {
        o["fieldType"] = typeStr(FD->getType());
        o["fieldClass"] = qname(FD->getParent());
      }
    } else if (auto *CE = dyn_cast<CallExpr>(S)) {
      const FunctionDecl *FD = CE->getDirectCallee();
      calleeInfo(o, FD);
      o["nargs"] = (int64_t)CE->getNumArgs();
      if (auto *OC = dyn_cast<CXXOperatorCallExpr>(S))
        o["op"] = getOperatorSpelling(OC->getOperator());
      if (auto *MC = dyn_cast<CXXMemberCallExpr>(S)) {
        if (const Expr *Obj = MC->getImplicitObjectArgument())
          o["obj"] = stmtId(C, Obj);
      }
      json::Array args;
      for (const Expr *A : CE->arguments()) args.push_back(stmtId(C, A));
      o["args"] = std::move(args);
      o["calleeExpr"] = stmtId(C, CE->getCallee());
    } else if (auto *CC = dyn_cast<CXXConstructExpr>(S)) {
      calleeInfo(o, CC->getConstructor());
      o["ctorClass"] = qname(CC->getConstructor()->getParent());
      json::Array args;
      for (const Expr *A : CC->arguments()) args.push_back(stmtId(C, A));
      o["args"] = std::move(args);
      if (CC->getConstructor()->isCopyOrMoveConstructor()) o["copyOrMove"] = true;
    } else if (auto *RB = dyn_cast<CXXRewrittenBinaryOperator>(S)) {
      auto DF = RB->getDecomposedForm();
      o["op"] = BinaryOperator::getOpcodeStr(DF.Opcode).str();
      o["lhs"] = stmtId(C, DF.LHS);
      o["rhs"] = stmtId(C, DF.RHS);
      if (RB->isReversed()) o["reversed"] = true;
    } else if (auto *BO = dyn_cast<BinaryOperator>(S)) {
      o["op"] = BO->getOpcodeStr().str();
    } else if (auto *UO = dyn_cast<UnaryOperator>(S)) {
      o["op"] = UnaryOperator::getOpcodeStr(UO->getOpcode()).str();
      if (UO->isPostfix()) o["postfix"] = true;
    } else if (auto *IL = dyn_cast<IntegerLiteral>(S)) {
      o["value"] = IL->getType()->isSignedIntegerType()
                       ? (int64_t)IL->getValue().getSExtValue()
                       : (int64_t)IL->getValue().getLimitedValue();
    } else if (auto *FL = dyn_cast<FloatingLiteral>(S)) {
      llvm::SmallString<32> str;
      FL->getValue().toString(str, 0, 0);
      o["value"] = str.str().str();
    } else if (auto *SL = dyn_cast<StringLiteral>(S)) {
      if (SL->getCharByteWidth() == 1) o["value"] = SL->getString().str();
      else o["value"] = "<wide>";
    } else if (auto *BL = dyn_cast<CXXBoolLiteralExpr>(S)) {
      o["value"] = BL->getValue();
    } else if (auto *CL = dyn_cast<CharacterLiteral>(S)) {
      o["value"] = (int64_t)CL->getValue();
    } else if (auto *IC = dyn_cast<CastExpr>(S)) {
      o["cast"] = IC->getCastKindName();
      if (auto *EC = dyn_cast<ExplicitCastExpr>(S))
        o["castTo"] = typeStr(EC->getTypeAsWritten());
    } else if (auto *DS = dyn_cast<DeclStmt>(S)) {
      json::Array ds;
      for (const Decl *D : DS->decls()) {
        json::Object d;
        d["declKind"] = D->getDeclKindName();
        if (auto *VD = dyn_cast<VarDecl>(D)) {
          d["name"] = VD->getNameAsString();
          d["declId"] = declId(VD);
          d["type"] = typeStr(VD->getType());
          d["typeW"] = VD->getType().getAsString(PP);
          if (VD->isStaticLocal()) d["static"] = true;
          if (VD->hasInit()) d["init"] = stmtId(C, VD->getInit());
          if (auto *RD = VD->getType()->getAsCXXRecordDecl())
            d["cls"] = qname(RD);
        }
        ds.push_back(std::move(d));
      }
      o["decls"] = std::move(ds);
    } else if (auto *DA = dyn_cast<CXXDefaultArgExpr>(S)) {
      o["param"] = DA->getParam()->getNameAsString();
      if (DA->getExpr()) o["expr"] = stmtId(C, DA->getExpr());
    } else if (auto *TE = dyn_cast<CXXThrowExpr>(S)) {
      (void)TE;
    } else if (auto *CS = dyn_cast<CXXCatchStmt>(S)) {
      o["catchType"] = CS->getExceptionDecl()
                           ? typeStr(CS->getCaughtType())
                           : std::string("...");
    } else if (auto *NE = dyn_cast<CXXNewExpr>(S)) {
      o["allocType"] = typeStr(NE->getAllocatedType());
    } else if (auto *DI = dyn_cast<CXXDefaultInitExpr>(S)) {
      o["field"] = DI->getField()->getNameAsString();
    } else if (auto *UE = dyn_cast<UnaryExprOrTypeTraitExpr>(S)) {
      (void)UE;
    } else if (auto *RS = dyn_cast<CXXForRangeStmt>(S)) {
      if (RS->getRangeInit()) {
        o["rangeType"] = typeStr(RS->getRangeInit()->getType());
        o["rangeInit"] = stmtId(C, RS->getRangeInit());
      }
      if (RS->getLoopVariable()) {
        o["loopVar"] = RS->getLoopVariable()->getNameAsString();
        o["loopVarId"] = declId(RS->getLoopVariable());
      }
    } else if (auto *IS = dyn_cast<IfStmt>(S)) {
      if (IS->isConstexpr()) {
        o["constexpr"] = true;
        bool R = false;
        if (!IS->getCond()->isValueDependent() &&
            IS->getCond()->EvaluateAsBooleanCondition(R, Ctx))
          o["constCond"] = R;
      }
      o["cond"] = stmtId(C, IS->getCond());
      o["then"] = stmtId(C, IS->getThen());
      if (IS->getElse()) o["else"] = stmtId(C, IS->getElse());
    } else if (auto *CS2 = dyn_cast<CaseStmt>(S)) {
      o["lhs"] = stmtId(C, CS2->getLHS());
      Expr::EvalResult R;
      if (CS2->getLHS()->EvaluateAsInt(R, Ctx))
        o["value"] = (int64_t)R.Val.getInt().getExtValue();
    } else if (auto *TS = dyn_cast<CXXTryStmt>(S)) {
      o["try"] = stmtId(C, TS->getTryBlock());
      json::Array hs;
      for (unsigned i = 0; i < TS->getNumHandlers(); ++i)
        hs.push_back(stmtId(C, TS->getHandler(i)));
      o["handlers"] = std::move(hs);
    } else if (auto *TH = dyn_cast<CXXThisExpr>(S)) {
      if (TH->isImplicit()) o["implicit"] = true;
    }
    C.table[std::to_string(n)] = std::move(o);
    return n;
  }

  // ------------------------------------------------------------ functions
  void dumpFunction(const FunctionDecl *F, int parentId) {
    if (!F->doesThisDeclarationHaveABody()) return;
    if (F->isDependentContext()) return;
    if (!done.insert(F).second) return;
    const Stmt *Body = F->getBody();
    if (!Body) return;
    FnCtx C;
    json::Object fo;
    int myId = declId(F);
    fo["id"] = myId;
    fo["qname"] = qname(F);
    fo["display"] = display(F);
    fo["file"] = fileOf(F->getLocation());
    fo["loc"] = loc(F->getLocation());
    fo["ret"] = typeStr(F->getReturnType());
    if (parentId >= 0) fo["parentFunc"] = parentId;
    if (isNoexcept(F)) fo["noexcept"] = true;
    if (F->isNoReturn()) fo["noreturn"] = true;
    if (F->isTemplateInstantiation()) fo["instantiation"] = true;
    json::Array ps;
    for (auto *P : F->parameters()) {
      json::Object p;
      p["name"] = P->getNameAsString();
      p["declId"] = declId(P);
      p["type"] = typeStr(P->getType());
      p["typeW"] = P->getType().getAsString(PP);
      if (P->hasDefaultArg() && !P->hasUninstantiatedDefaultArg() &&
          !P->hasUnparsedDefaultArg())
        p["default"] = stmtId(C, P->getDefaultArg());
      else if (P->hasUninstantiatedDefaultArg())
        p["default"] = stmtId(C, P->getUninstantiatedDefaultArg());
      ps.push_back(std::move(p));
    }
    fo["params"] = std::move(ps);
    if (auto *MD = dyn_cast<CXXMethodDecl>(F)) {
      fo["class"] = qname(MD->getParent());
      if (MD->getParent()->isLambda()) fo["isLambda"] = true;
      if (MD->isConst()) fo["const"] = true;
      if (isa<CXXConstructorDecl>(MD)) fo["ctor"] = true;
      if (isa<CXXDestructorDecl>(MD)) fo["dtor"] = true;
    }
    if (auto *CD = dyn_cast<CXXConstructorDecl>(F)) {
      json::Array inits;
      for (auto *I : CD->inits()) {
        json::Object io;
        if (I->isAnyMemberInitializer())
          io["member"] = I->getAnyMember()->getNameAsString();
        else if (I->isBaseInitializer())
          io["base"] = typeStr(QualType(I->getBaseClass(), 0));
        io["written"] = I->isWritten();
        io["init"] = stmtId(C, I->getInit());
        inits.push_back(std::move(io));
      }
      fo["inits"] = std::move(inits);
    }
    fo["body"] = stmtId(C, Body);
    // CFG
    CFG::BuildOptions BO;
    BO.setAllAlwaysAdd();
    BO.AddImplicitDtors = true;
    BO.AddTemporaryDtors = true;
    BO.AddInitializers = true;
    BO.PruneTriviallyFalseEdges = false;
    std::unique_ptr<CFG> G = CFG::buildCFG(F, const_cast<Stmt *>(Body), &Ctx, BO);
    if (G) {
      json::Object go;
      go["entry"] = (int64_t)G->getEntry().getBlockID();
      go["exit"] = (int64_t)G->getExit().getBlockID();
      json::Array blocks;
      for (const CFGBlock *B : *G) {
        json::Object bo;
        bo["id"] = (int64_t)B->getBlockID();
        json::Array elems;
        for (const CFGElement &E : *B) {
          json::Object eo;
          if (auto S = E.getAs<CFGStmt>()) {
            eo["s"] = stmtId(C, S->getStmt());
          } else if (auto I = E.getAs<CFGInitializer>()) {
            const CXXCtorInitializer *CI = I->getInitializer();
            if (CI->isAnyMemberInitializer())
              eo["initMember"] = CI->getAnyMember()->getNameAsString();
            else
              eo["initBase"] = true;
            eo["init"] = stmtId(C, CI->getInit());
          } else if (auto D = E.getAs<CFGAutomaticObjDtor>()) {
            eo["dtor"] = "auto";
            eo["var"] = D->getVarDecl()->getNameAsString();
            eo["varId"] = declId(D->getVarDecl());
            QualType T = D->getVarDecl()->getType().getNonReferenceType();
            if (auto *RD = T->getAsCXXRecordDecl()) eo["cls"] = qname(RD);
            eo["trigger"] = stmtId(C, D->getTriggerStmt());
          } else if (auto T = E.getAs<CFGTemporaryDtor>()) {
            eo["dtor"] = "temp";
            const CXXBindTemporaryExpr *BT = T->getBindTemporaryExpr();
            if (auto *RD = BT->getType()->getAsCXXRecordDecl())
              eo["cls"] = qname(RD);
            eo["bind"] = stmtId(C, BT);
          } else if (auto D2 = E.getAs<CFGDeleteDtor>()) {
            eo["dtor"] = "delete";
            if (D2->getCXXRecordDecl()) eo["cls"] = qname(D2->getCXXRecordDecl());
          } else if (auto MDt = E.getAs<CFGMemberDtor>()) {
            eo["dtor"] = "member";
            eo["var"] = MDt->getFieldDecl()->getNameAsString();
          } else if (E.getAs<CFGBaseDtor>()) {
            eo["dtor"] = "base";
          } else {
            eo["other"] = (int64_t)E.getKind();
          }
          elems.push_back(std::move(eo));
        }
        bo["elems"] = std::move(elems);
        if (const Stmt *T = B->getTerminatorStmt()) {
          bo["term"] = stmtId(C, T);
          bo["termKind"] = T->getStmtClassName();
        }
        if (B->getTerminator().isTemporaryDtorsBranch()) bo["tempDtorBranch"] = true;
        if (const Stmt *TC = B->getTerminatorCondition(false))
          bo["cond"] = stmtId(C, TC);
        if (const Stmt *L = B->getLabel()) bo["label"] = stmtId(C, L);
        if (B->hasNoReturnElement()) bo["noreturn"] = true;
        json::Array succs;
        for (auto I = B->succ_begin(); I != B->succ_end(); ++I) {
          const CFGBlock *R = I->getReachableBlock();
          const CFGBlock *U = I->getPossiblyUnreachableBlock();
          if (R)
            succs.push_back((int64_t)R->getBlockID());
          else if (U) {
            json::Object so;
            so["unreachable"] = (int64_t)U->getBlockID();
            succs.push_back(std::move(so));
          } else
            succs.push_back(nullptr);
        }
        bo["succs"] = std::move(succs);
        blocks.push_back(std::move(bo));
      }
      go["blocks"] = std::move(blocks);
      fo["cfg"] = std::move(go);
    }
    // lambdas encountered (dump after finishing our table to keep ids local)
    std::vector<const LambdaExpr *> ls = C.lambdas;
    fo["stmts"] = std::move(C.table);
    functions.push_back(std::move(fo));
    for (auto *L : ls)
      if (L->getCallOperator()) {
        const FunctionDecl *Op = L->getCallOperator();
        // generic lambdas: dump every instantiated specialisation
        if (auto *FT = Op->getDescribedFunctionTemplate()) {
          for (auto *Spec : FT->specializations()) dumpFunction(Spec, myId);
        } else
          dumpFunction(Op, myId);
      }
  }

  // ------------------------------------------------------------ variables
  void dumpVar(const VarDecl *V) {
    const Expr *I = V->getAnyInitializer();
    if (!I) return;
    FnCtx C;
    json::Object vo;
    vo["id"] = declId(V);
    vo["qname"] = qname(V);
    vo["name"] = V->getNameAsString();
    vo["loc"] = loc(V->getLocation());
    vo["file"] = fileOf(V->getLocation());
    vo["type"] = typeStr(V->getType());
    vo["params"] = json::Array();
    vo["body"] = stmtId(C, I);
    vo["stmts"] = std::move(C.table);
    vars.push_back(std::move(vo));
  }

  // ------------------------------------------------------------ light mode
  struct LightVisitor : RecursiveASTVisitor<LightVisitor> {
    Dumper &D;
    json::Array calls, loops, misc;
    explicit LightVisitor(Dumper &d) : D(d) {}
    bool shouldVisitTemplateInstantiations() const { return true; }
    bool VisitCallExpr(CallExpr *CE) {
      if (const FunctionDecl *FD = CE->getDirectCallee()) {
        json::Object o;
        o["callee"] = D.qname(FD);
        o["l"] = D.loc(CE->getBeginLoc());
        // stream insertion of a raw pointer value
        if (auto *OC = dyn_cast<CXXOperatorCallExpr>(CE)) {
          if (OC->getOperator() == OO_LessLess && OC->getNumArgs() == 2) {
            QualType T = OC->getArg(1)->IgnoreImpCasts()->getType();
            o["ins"] = D.typeStr(T);
          }
        } else if (auto *MC = dyn_cast<CXXMemberCallExpr>(CE)) {
          if (const Expr *Obj = MC->getImplicitObjectArgument())
            o["objType"] = D.typeStr(Obj->IgnoreImpCasts()->getType());
          if (FD->getNumParams() == 1)
            o["p0"] = D.typeStr(FD->getParamDecl(0)->getType());
        }
        if (CE->getNumArgs() >= 1)
          if (auto *SL = dyn_cast<StringLiteral>(
                  CE->getArg(0)->IgnoreParenImpCasts()))
            if (SL->getCharByteWidth() == 1) o["arg0"] = SL->getString().str();
        calls.push_back(std::move(o));
      }
      return true;
    }
    bool VisitCXXConstructExpr(CXXConstructExpr *CE) {
      json::Object o;
      o["callee"] = D.qname(CE->getConstructor());
      o["l"] = D.loc(CE->getBeginLoc());
      o["ctor"] = true;
      calls.push_back(std::move(o));
      return true;
    }
    bool VisitCXXForRangeStmt(CXXForRangeStmt *S) {
      json::Object o;
      if (S->getRangeInit()) o["rangeType"] = D.typeStr(S->getRangeInit()->getType());
      o["l"] = D.loc(S->getBeginLoc());
      loops.push_back(std::move(o));
      return true;
    }
  };

  void dumpLight(const FunctionDecl *F) {
    LightVisitor V(*this);
    V.TraverseStmt(F->getBody());
    json::Object fo;
    fo["qname"] = qname(F);
    fo["loc"] = loc(F->getLocation());
    fo["file"] = fileOf(F->getLocation());
    if (auto *MD = dyn_cast<CXXMethodDecl>(F)) fo["class"] = qname(MD->getParent());
    fo["calls"] = std::move(V.calls);
    fo["loops"] = std::move(V.loops);
    light.push_back(std::move(fo));
  }

  // -------------------------------------------------------------- records
  void dumpRecord(const CXXRecordDecl *R) {
    if (!R->isCompleteDefinition() || R->isDependentContext()) return;
    json::Object ro;
    ro["qname"] = qname(R);
    ro["loc"] = loc(R->getLocation());
    json::Array fs;
    for (auto *F : R->fields()) {
      json::Object f;
      f["name"] = F->getNameAsString();
      f["type"] = typeStr(F->getType());
      fs.push_back(std::move(f));
    }
    ro["fields"] = std::move(fs);
    json::Array bs;
    for (auto &B : R->bases()) bs.push_back(typeStr(B.getType()));
    ro["bases"] = std::move(bs);
    json::Array ms;
    for (auto *D : R->decls()) {
      const FunctionDecl *FD = dyn_cast<FunctionDecl>(D);
      if (auto *FT = dyn_cast<FunctionTemplateDecl>(D)) FD = FT->getTemplatedDecl();
      if (!FD) continue;
      json::Object m;
      m["name"] = FD->getNameAsString();
      m["type"] = typeStr(FD->getType());
      if (FD->isDeleted()) m["deleted"] = true;
      if (FD->isDefaulted()) m["defaulted"] = true;
      if (FD->isImplicit()) m["implicit"] = true;
      if (auto *CD = dyn_cast<CXXConstructorDecl>(FD)) {
        m["ctor"] = true;
        if (CD->isCopyConstructor()) m["copy"] = true;
        if (CD->isMoveConstructor()) m["move"] = true;
      }
      if (auto *MD = dyn_cast<CXXMethodDecl>(FD)) {
        if (MD->isCopyAssignmentOperator()) m["copyAssign"] = true;
        if (MD->isMoveAssignmentOperator()) m["moveAssign"] = true;
      }
      if (isa<CXXDestructorDecl>(FD)) m["dtor"] = true;
      json::Array pd;
      for (auto *P : FD->parameters()) {
        json::Object p;
        p["name"] = P->getNameAsString();
        p["type"] = typeStr(P->getType());
        pd.push_back(std::move(p));
      }
      m["params"] = std::move(pd);
      ms.push_back(std::move(m));
    }
    ro["methods"] = std::move(ms);
    records.push_back(std::move(ro));
  }
};

struct TopVisitor : RecursiveASTVisitor<TopVisitor> {
  Dumper &D;
  explicit TopVisitor(Dumper &d) : D(d) {}
  bool shouldVisitTemplateInstantiations() const { return true; }
  bool shouldVisitImplicitCode() const { return false; }
  bool VisitFunctionDecl(FunctionDecl *F) {
    if (!F->doesThisDeclarationHaveABody() || F->isDependentContext()) return true;
    if (auto *MD = dyn_cast<CXXMethodDecl>(F))
      if (MD->getParent()->isLambda()) return true;  // dumped with the parent
    if (!D.underRoot(F)) return true;
    std::string q = D.qname(F);
    if (!FuncRe.empty() && D.funcRe.match(q)) D.dumpFunction(F, -1);
    if (Calls) D.dumpLight(F);
    return true;
  }
  bool VisitVarDecl(VarDecl *V) {
    if (VarRe.empty()) return true;
    if (V->isLocalVarDeclOrParm() || !V->isThisDeclarationADefinition()) return true;
    if (V->getDeclContext()->isDependentContext()) return true;
    if (!V->hasInit()) return true;
    if (D.varRe.match(D.qname(V))) D.dumpVar(V);
    return true;
  }
  bool VisitCXXRecordDecl(CXXRecordDecl *R) {
    if (RecRe.empty()) return true;
    if (!R->isCompleteDefinition() || R->isDependentContext()) return true;
    if (D.recRe.match(D.qname(R))) D.dumpRecord(R);
    return true;
  }
};

class Consumer : public ASTConsumer {
 public:
  void HandleTranslationUnit(ASTContext &Ctx) override {
    if (Ctx.getDiagnostics().hasUnrecoverableErrorOccurred()) {
      llvm::errs() << "cfgdump: unrecoverable parse error\n";
    }
    Dumper D(Ctx);
    TopVisitor V(D);
    V.TraverseDecl(Ctx.getTranslationUnitDecl());
    json::Object root;
    root["functions"] = std::move(D.functions);
    root["records"] = std::move(D.records);
    root["light"] = std::move(D.light);
    root["vars"] = std::move(D.vars);
    root["errors"] = (int64_t)Ctx.getDiagnostics().getNumErrors();
    std::error_code EC;
    if (OutFile == "-") {
      llvm::outs() << json::Value(std::move(root)) << "\n";
    } else {
      llvm::raw_fd_ostream os(OutFile, EC);
      os << json::Value(std::move(root)) << "\n";
    }
  }
};

class Action : public ASTFrontendAction {
 public:
  std::unique_ptr<ASTConsumer> CreateASTConsumer(CompilerInstance &,
                                                 llvm::StringRef) override {
    return std::make_unique<Consumer>();
  }
};

}  // namespace

int main(int argc, const char **argv) {
  auto Expected = CommonOptionsParser::create(argc, argv, Cat);
  if (!Expected) {
    llvm::errs() << Expected.takeError();
    return 2;
  }
  CommonOptionsParser &OP = Expected.get();
  ClangTool Tool(OP.getCompilations(), OP.getSourcePathList());
  int rc = Tool.run(newFrontendActionFactory<Action>().get());
  return rc ? 2 : 0;
}
