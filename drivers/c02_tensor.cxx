// shims around closed-form tensor / fourth-order tensor operations (C02) and
// closed-form derivative helpers (C06)
#include "TFEL/Math/stensor.hxx"
#include "TFEL/Math/tensor.hxx"
#include "TFEL/Math/st2tost2.hxx"
#include "TFEL/Math/t2tot2.hxx"
#include "TFEL/Math/t2tost2.hxx"
#include "TFEL/Math/st2tot2.hxx"
using namespace tfel::math;
template <unsigned short N> constexpr unsigned short ssz = StensorDimeToSize<N>::value;
template <unsigned short N> constexpr unsigned short tsz = TensorDimeToSize<N>::value;
template <unsigned short N> static stensor<N, double> lds(const double* p) {
  stensor<N, double> s;
  for (unsigned short i = 0; i != ssz<N>; ++i) s[i] = p[i];
  return s;
}
template <unsigned short N> static tensor<N, double> ldt(const double* p) {
  tensor<N, double> s;
  for (unsigned short i = 0; i != tsz<N>; ++i) s[i] = p[i];
  return s;
}
template <unsigned short N> static st2tost2<N, double> ldss(const double* p) {
  st2tost2<N, double> s;
  for (unsigned short i = 0; i != ssz<N>; ++i)
    for (unsigned short j = 0; j != ssz<N>; ++j) s(i, j) = p[i * ssz<N> + j];
  return s;
}
template <unsigned short N> static t2tot2<N, double> ldtt(const double* p) {
  t2tot2<N, double> s;
  for (unsigned short i = 0; i != tsz<N>; ++i)
    for (unsigned short j = 0; j != tsz<N>; ++j) s(i, j) = p[i * tsz<N> + j];
  return s;
}
template <unsigned short N, typename S> static void sts(double* p, const S& s) {
  const stensor<N, double> r = s;
  for (unsigned short i = 0; i != ssz<N>; ++i) p[i] = r[i];
}
template <unsigned short N, typename S> static void stt(double* p, const S& s) {
  const tensor<N, double> r = s;
  for (unsigned short i = 0; i != tsz<N>; ++i) p[i] = r[i];
}
template <unsigned short N, typename S> static void stss(double* p, const S& s) {
  const st2tost2<N, double> r = s;
  for (unsigned short i = 0; i != ssz<N>; ++i)
    for (unsigned short j = 0; j != ssz<N>; ++j) p[i * ssz<N> + j] = r(i, j);
}
template <unsigned short N, typename S> static void sttt(double* p, const S& s) {
  const t2tot2<N, double> r = s;
  for (unsigned short i = 0; i != tsz<N>; ++i)
    for (unsigned short j = 0; j != tsz<N>; ++j) p[i * tsz<N> + j] = r(i, j);
}
template <unsigned short N, typename S> static void stts(double* p, const S& s) {
  const t2tost2<N, double> r = s;
  for (unsigned short i = 0; i != ssz<N>; ++i)
    for (unsigned short j = 0; j != tsz<N>; ++j) p[i * tsz<N> + j] = r(i, j);
}
static rotation_matrix<double> ldm(const double* p) {
  rotation_matrix<double> m;
  for (unsigned short i = 0; i != 3; ++i)
    for (unsigned short j = 0; j != 3; ++j) m(i, j) = p[3 * i + j];
  return m;
}
#define SHIMS(N)                                                                                          \
  extern "C" void verif_tdet_##N(const double* a, double* o) { o[0] = det(ldt<N>(a)); }                  \
  extern "C" void verif_tinvert_##N(const double* a, double* o) { stt<N>(o, invert(ldt<N>(a))); }        \
  extern "C" void verif_ttranspose_##N(const double* a, double* o) { stt<N>(o, transpose(ldt<N>(a))); }  \
  extern "C" void verif_tprod_##N(const double* a, const double* b, double* o) {                         \
    stt<N>(o, ldt<N>(a) * ldt<N>(b));                                                                     \
  }                                                                                                       \
  extern "C" void verif_ttrace_##N(const double* a, double* o) { o[0] = trace(ldt<N>(a)); }              \
  extern "C" void verif_syme_##N(const double* a, double* o) { sts<N>(o, syme(ldt<N>(a))); }             \
  extern "C" void verif_unsyme_##N(const double* a, double* o) { stt<N>(o, unsyme(lds<N>(a))); }         \
  extern "C" void verif_rcg_##N(const double* a, double* o) {                                            \
    sts<N>(o, computeRightCauchyGreenTensor(ldt<N>(a)));                                                  \
  }                                                                                                       \
  extern "C" void verif_lcg_##N(const double* a, double* o) {                                            \
    sts<N>(o, computeLeftCauchyGreenTensor(ldt<N>(a)));                                                   \
  }                                                                                                       \
  extern "C" void verif_egl_##N(const double* a, double* o) {                                            \
    sts<N>(o, computeGreenLagrangeTensor(ldt<N>(a)));                                                     \
  }                                                                                                       \
  extern "C" void verif_pushforward_##N(const double* s, const double* f, double* o) {                   \
    sts<N>(o, push_forward(lds<N>(s), ldt<N>(f)));                                                        \
  }                                                                                                       \
  extern "C" void verif_pushForward2_##N(const double* s, const double* f, double* o) {                  \
    sts<N>(o, pushForward(lds<N>(s), ldt<N>(f)));                                                         \
  }                                                                                                       \
  extern "C" void verif_tchangebasis_##N(const double* a, const double* r, double* o) {                  \
    stt<N>(o, change_basis(ldt<N>(a), ldm(r)));                                                           \
  }                                                                                                       \
  extern "C" void verif_cauchy2pk2_##N(const double* s, const double* f, double* o) {                    \
    sts<N>(o, convertCauchyStressToSecondPiolaKirchhoffStress(lds<N>(s), ldt<N>(f)));                     \
  }                                                                                                       \
  extern "C" void verif_pk22cauchy_##N(const double* s, const double* f, double* o) {                    \
    sts<N>(o, convertSecondPiolaKirchhoffStressToCauchyStress(lds<N>(s), ldt<N>(f)));                     \
  }                                                                                                       \
  extern "C" void verif_cauchy2pk1_##N(const double* s, const double* f, double* o) {                    \
    stt<N>(o, convertCauchyStressToFirstPiolaKirchhoffStress(lds<N>(s), ldt<N>(f)));                      \
  }                                                                                                       \
  extern "C" void verif_pk12cauchy_##N(const double* p, const double* f, double* o) {                    \
    sts<N>(o, convertFirstPiolaKirchhoffStressToCauchyStress(ldt<N>(p), ldt<N>(f)));                      \
  }                                                                                                       \
  extern "C" void verif_ssId_##N(double* o) { stss<N>(o, st2tost2<N, double>::Id()); }                   \
  extern "C" void verif_ssIxI_##N(double* o) { stss<N>(o, st2tost2<N, double>::IxI()); }                 \
  extern "C" void verif_ssJ_##N(double* o) { stss<N>(o, st2tost2<N, double>::J()); }                     \
  extern "C" void verif_ssK_##N(double* o) { stss<N>(o, st2tost2<N, double>::K()); }                     \
  extern "C" void verif_ssM_##N(double* o) { stss<N>(o, st2tost2<N, double>::M()); }                     \
  extern "C" void verif_ttId_##N(double* o) { sttt<N>(o, t2tot2<N, double>::Id()); }                     \
  extern "C" void verif_ttIxI_##N(double* o) { sttt<N>(o, t2tot2<N, double>::IxI()); }                   \
  extern "C" void verif_ttK_##N(double* o) { sttt<N>(o, t2tot2<N, double>::K()); }                       \
  extern "C" void verif_ssprod_##N(const double* a, const double* b, double* o) {                        \
    stss<N>(o, ldss<N>(a) * ldss<N>(b));                                                                  \
  }                                                                                                       \
  extern "C" void verif_ssapply_##N(const double* a, const double* s, double* o) {                       \
    sts<N>(o, ldss<N>(a) * lds<N>(s));                                                                    \
  }                                                                                                       \
  extern "C" void verif_sstranspose_##N(const double* a, double* o) {                                    \
    stss<N>(o, transpose(ldss<N>(a)));                                                                    \
  }                                                                                                       \
  extern "C" void verif_ttprod_##N(const double* a, const double* b, double* o) {                        \
    sttt<N>(o, ldtt<N>(a) * ldtt<N>(b));                                                                  \
  }                                                                                                       \
  extern "C" void verif_ttapply_##N(const double* a, const double* t, double* o) {                       \
    stt<N>(o, ldtt<N>(a) * ldt<N>(t));                                                                    \
  }                                                                                                       \
  /* ---- derivative helpers (C06) ---- */                                                                \
  extern "C" void verif_ddet_s_##N(const double* a, double* o) {                                         \
    sts<N>(o, computeDeterminantDerivative(lds<N>(a)));                                                   \
  }                                                                                                       \
  extern "C" void verif_ddevdet_s_##N(const double* a, double* o) {                                      \
    sts<N>(o, computeDeviatorDeterminantDerivative(lds<N>(a)));                                           \
  }                                                                                                       \
  extern "C" void verif_d2det_s_##N(const double* a, double* o) {                                        \
    stss<N>(o, computeDeterminantSecondDerivative(lds<N>(a)));                                            \
  }                                                                                                       \
  extern "C" void verif_d2devdet_s_##N(const double* a, double* o) {                                     \
    stss<N>(o, computeDeviatorDeterminantSecondDerivative(lds<N>(a)));                                    \
  }                                                                                                       \
  extern "C" void verif_ddet_t_##N(const double* a, double* o) {                                         \
    stt<N>(o, computeDeterminantDerivative(ldt<N>(a)));                                                   \
  }                                                                                                       \
  extern "C" void verif_d2det_t_##N(const double* a, double* o) {                                        \
    sttt<N>(o, computeDeterminantSecondDerivative(ldt<N>(a)));                                            \
  }                                                                                                       \
  extern "C" void verif_dsquare_##N(const double* a, double* o) {                                        \
    stss<N>(o, st2tost2<N, double>::dsquare(lds<N>(a)));                                                  \
  }                                                                                                       \
  extern "C" void verif_dsquare2_##N(const double* a, const double* c, double* o) {                      \
    stss<N>(o, st2tost2<N, double>::dsquare(lds<N>(a), ldss<N>(c)));                                      \
  }                                                                                                       \
  extern "C" void verif_dCdF_##N(const double* f, double* o) {                                           \
    stts<N>(o, t2tost2<N, double>::dCdF(ldt<N>(f)));                                                      \
  }                                                                                                       \
  extern "C" void verif_dBdF_##N(const double* f, double* o) {                                           \
    stts<N>(o, t2tost2<N, double>::dBdF(ldt<N>(f)));                                                      \
  }                                                                                                       \
  extern "C" void verif_tpld_##N(const double* b, double* o) {                                           \
    sttt<N>(o, t2tot2<N, double>::tpld(ldt<N>(b)));                                                       \
  }                                                                                                       \
  extern "C" void verif_tprd_##N(const double* a, double* o) {                                           \
    sttt<N>(o, t2tot2<N, double>::tprd(ldt<N>(a)));                                                       \
  }
SHIMS(1)
SHIMS(2)
SHIMS(3)
