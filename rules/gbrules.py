"""Rules shared by C39, C40, C55 on the generic behaviour interface.

Subject: the templates of mfront/include/MFront/GenericBehaviour/*.hxx as
instantiated by sources that the freshly rebuilt mfront generates for the
corpus in /verif/corpus/gb (small strain, Hencky, Green-Lagrange, finite
strain; 5 modelling hypotheses each).  The generated sources are only parsed.
"""
import glob, re
from common import *
from cfg import *
from ainterp import *
import gencheck

TRI_SOURCES = re.compile(r"^mfront::gb::(integrate|computePredictionOperator|"
                         r"(finite_strain|green_lagrange_strain|logarithmic_strain)::integrate)$")
WRAPPERS = ("mfront::gb::finite_strain::integrate",
            "mfront::gb::green_lagrange_strain::integrate",
            "mfront::gb::logarithmic_strain::integrate")
SWAPPED = ("d.s0.gradients", "d.s1.gradients", "d.s0.thermodynamic_forces",
           "d.s1.thermodynamic_forces", "d.K")
# calls that cannot throw although not declared noexcept: one reason each
NOTHROW = {
    "mfront::gb::reportError": "strncpy into a caller buffer, no allocation",
    "mfront::gb::DoNothingEnergyComputer::exe": "empty body (tag-dispatch place holder)",
    "mfront::gb::exportTangentOperator": "component-wise copy into the caller's buffer; the only raise arm is "
                                         "for a variant alternative no generated behaviour holds",
    "Behaviour::getTangentOperator": "generated getter returning a reference to a member",
    "tfel::math::map": "builds a view on a raw pointer (no allocation, no check)",
}


def norm_callee(q):
    """drop template arguments and the corpus class name: keep namespace::member."""
    q = re.sub(r"<[^<>]*(<[^<>]*(<[^<>]*>[^<>]*)*>[^<>]*)*>", "", q)
    q = re.sub(r"tfel::material::Verif\w+::", "Behaviour::", q)
    return q


def last(q):
    return q.rsplit("::", 1)[-1] if q else q


def load_corpus(tag):
    files = sorted(glob.glob(os.path.join(VERIF, "corpus", "gb", "*.mfront")))
    if len(files) < 4:
        raise AnalysisBroken("corpus/gb incomplete")
    src, inc = gencheck.generate(files, os.path.join(OUT, tag, "gen"))
    units = sorted(glob.glob(os.path.join(src, "*-generic.cxx")))
    dumps = cfgdump(units, os.path.join(OUT, tag, "dump"), funcs=r"^mfront::gb::",
                    flags_for=gencheck.gen_flags(inc))
    per = {}
    for u, d in dumps.items():
        per[os.path.basename(u)] = [Func(f, u) for f in d["functions"]]
    return per


def hyp(f):
    m = re.search(r"ModellingHypothesis::(\w+)", f.display)
    return m.group(1) if m else "?"


def tag(f):
    return "%s<%s>" % (f.qname, hyp(f))


def rel(loc):
    return loc.replace(REPO + "/", "")


# ------------------------------------------------------------- TRISTATE
def rule_tristate(rep, funcs, pid):
    """a {-1,0,1} status is never tested by truthiness."""
    for f in funcs:
        if f.d.get("isLambda"):
            continue
        for sid, n in f.stmts.items():
            if n["k"] != "DeclStmt":
                continue
            for d in n["decls"]:
                if "init" not in d:
                    continue
                i = f.strip(d["init"])
                cn = f.stmts[i]
                if cn["k"] != "CallExpr" or not TRI_SOURCES.match(cn.get("callee") or ""):
                    continue
                if d["type"] not in ("int", "const int"):
                    continue
                rep.count("tri-state status variables")
                vid = d["declId"]
                bad = []
                uses = 0
                pm = f.parent_map()
                for s2, n2 in f.stmts.items():
                    if n2["k"] == "DeclRefExpr" and n2.get("declId") == vid:
                        uses += 1
                        p = s2
                        while p in pm and f.stmts[pm[p]]["k"] in ("ParenExpr",) or \
                                (p in pm and f.stmts[pm[p]]["k"] == "ImplicitCastExpr"
                                 and f.stmts[pm[p]].get("cast") == "LValueToRValue"):
                            p = pm[p]
                        par = f.stmts.get(pm.get(p, -1))
                        if par and par["k"] == "ImplicitCastExpr" and par.get("cast") == "IntegralToBoolean":
                            bad.append(s2)
                        elif par and par["k"] == "UnaryOperator" and par.get("op") == "!":
                            bad.append(s2)
                key = "TRISTATE@%s#%s<-%s" % (f.qname, d["name"], cn["callee"])
                if bad:
                    if not any(v["key"] == key for v in rep.violations):
                        rep.fail(key,
                                 "%s: status '%s' of %s (range {-1,0,1}) is tested by truthiness at %s "
                                 "[%s]: post-processing runs after a failure (-1) and is skipped after a "
                                 "success with time-step reduction (0)"
                                 % (rel(f.short_loc(sid)), d["name"], cn["callee"],
                                    ", ".join(sorted({rel(f.short_loc(b)) for b in bad})), hyp(f)),
                                 function=tag(f))
                else:
                    rep.ok("%s: status '%s' of %s only compared/returned (%d uses) [%s]"
                           % (rel(f.short_loc(sid)), d["name"], cn["callee"], uses, hyp(f)),
                           sample=(hyp(f) == "TRIDIMENSIONAL"))


# ---------------------------------------------------- export ordering (C40)
def cond_source(f, sid, pol=True):
    """normalise a branch condition to (source, truth) where truth is the value
    of 'source' on the given polarity."""
    s = f.strip(sid)
    n = f.stmts[s]
    if n["k"] == "UnaryOperator" and n["op"] == "!":
        return cond_source(f, f.kids(s)[0], not pol)
    if n["k"] == "CXXMemberCallExpr":
        return (last(n.get("callee")), pol)
    if n["k"] == "MemberExpr":
        base = f.strip(f.kids(s)[0])
        bn = f.stmts[base]
        if bn["k"] == "DeclRefExpr":
            init = var_init_callee(f, bn["declId"])
            if init:
                return (init + "." + n["member"], pol)
    if n["k"] == "BinaryOperator" and n["op"] in ("==", "!="):
        l, r = [f.strip(x) for x in f.kids(s)[:2]]
        for a, b in ((l, r), (r, l)):
            an, bn = f.stmts[a], f.stmts[b]
            if an["k"] == "CXXMemberCallExpr" and "::operator " in (an.get("callee") or "") \
                    and an.get("obj"):
                a = f.strip(an["obj"])      # conversion operator of a status object
                an = f.stmts[a]
            if an["k"] == "DeclRefExpr" and bn["k"] == "DeclRefExpr" and bn.get("declKind") == "EnumConstant":
                init = var_init_callee(f, an["declId"])
                if init:
                    return ("%s==%s" % (init, bn["name"]), pol == (n["op"] == "=="))
    return (None, pol)


def var_init_callee(f, decl_id):
    for n in f.stmts.values():
        if n["k"] == "DeclStmt":
            for d in n["decls"]:
                if d.get("declId") == decl_id and "init" in d:
                    i = f.strip(d["init"])
                    if f.stmts[i]["k"] in ("CXXMemberCallExpr", "CallExpr"):
                        return last(f.stmts[i].get("callee"))
    return None


REQUIRED_BEFORE_EXPORT = [("initialize", True),
                          ("computeAPrioriTimeStepScalingFactor.first", True),
                          ("integrate==FAILURE", False),
                          ("computeAPosterioriTimeStepScalingFactor.first", True)]


def is_minus_one(f, sid):
    s = f.strip(sid)
    n = f.stmts[s]
    if n["k"] == "UnaryOperator" and n["op"] == "-":
        k = f.stmts[f.strip(f.kids(s)[0])]
        return k["k"] == "IntegerLiteral" and k["value"] == 1
    return False


def rule_export_order(rep, funcs):
    """R1: exportStateData only after the four success edges; no 'return -1'
    and no failure status once the output state has been written.
    R4: calls that may throw after the export, inside the try whose handler
    returns -1."""
    for f in funcs:
        if f.qname != "mfront::gb::integrate" or f.d.get("isLambda"):
            continue
        rep.count("instantiations of mfront::gb::integrate")
        exports = [s for s, n in f.stmts.items()
                   if n["k"] == "CXXMemberCallExpr" and last(n.get("callee")) == "exportStateData"]
        if not exports:
            raise AnalysisBroken("no exportStateData call in " + tag(f))
        viol = {}
        after_calls = {}

        def elem_fn(st, b, i, e):
            facts, exported = st
            if "s" not in e:
                return (st,)
            sid = e["s"]
            n = f.stmts[sid]
            if sid in exports:
                missing = [r for r in REQUIRED_BEFORE_EXPORT if r not in facts]
                if missing:
                    viol.setdefault(("EXPORT-UNGUARDED", tuple(missing)), sid)
                return ((facts, True),)
            if exported:
                if n["k"] == "ReturnStmt" and f.kids(sid) and is_minus_one(f, f.kids(sid)[0]):
                    viol.setdefault(("FAIL-AFTER-EXPORT", "return -1"), sid)
                if f.is_call(sid) and n.get("callee") and not n.get("noexcept") \
                        and n["k"] != "CXXConstructExpr" or \
                        (n["k"] in ("CXXConstructExpr", "CXXTemporaryObjectExpr") and not n.get("noexcept")
                         and not n.get("copyOrMove")):
                    after_calls.setdefault(n.get("callee"), sid)
            return (st,)

        def edge_fn(st, b, succ, pol):
            facts, exported = st
            if pol is None or b.cond is None:
                return (st,)
            src, truth = cond_source(f, b.cond, pol)
            if src is None:
                return (st,)
            return ((facts | {(src, truth)}, exported),)

        forward(f, [(frozenset(), False)], elem_fn, edge_fn)
        for (kind, what), sid in viol.items():
            rep.fail("%s@mfront::gb::integrate#%s" % (kind, what if isinstance(what, str) else
                                                        ",".join(w[0] for w in what)),
                     "%s: %s in %s: %s" % (rel(f.short_loc(sid)), kind, tag(f), what))
        if not viol:
            rep.ok("exportStateData at %s is dominated by the success edges of %s and no 'return -1' follows it [%s]"
                   % (rel(f.short_loc(exports[0])), [r[0] for r in REQUIRED_BEFORE_EXPORT], hyp(f)),
                   sample=(hyp(f) == "TRIDIMENSIONAL"))
        # R4: may-throw after export (the catch(...) handler returns -1)
        for cal, sid in sorted(after_calls.items(), key=lambda t: str(t[0])):
            if cal is None:
                continue
            nm = norm_callee(cal)
            if nm in NOTHROW:
                rep.ok("call of %s after exportStateData cannot throw: %s" % (nm, NOTHROW[nm]), sample=False)
                continue
            key = "MAY-THROW-AFTER-EXPORT@mfront::gb::integrate#%s" % nm
            if not any(v["key"] == key for v in rep.violations):
                rep.fail(key, "%s: %s is not noexcept and is called after exportStateData(d.s1) inside the try "
                         "block whose handler returns -1: an exception here reports failure with the output "
                         "state already written" % (rel(f.short_loc(sid)), nm), function=tag(f))
        rep.count("calls after exportStateData examined", len(after_calls))


# --------------------------------------------- wrappers: restore + write-back
def rule_restore(rep, funcs):
    for f in funcs:
        if f.qname not in WRAPPERS and not re.match(
                r"^mfront::gb::\w+::(executePostProcessing|executeInitializeFunction)$", f.qname):
            continue
        if f.d.get("isLambda"):
            continue
        # saved copies: local var initialised from a read of the path
        saved = {}
        for n in f.stmts.values():
            if n["k"] == "DeclStmt":
                for d in n["decls"]:
                    if "init" in d:
                        p = f.path(d["init"])
                        if p in SWAPPED:
                            saved[d["declId"]] = p
        if not saved:
            continue
        rep.count("wrapper instantiations with pointer swaps")
        bad = {}

        def elem_fn(st, b, i, e):
            if "s" not in e:
                return (st,)
            sid = e["s"]
            n = f.stmts[sid]
            if n["k"] == "BinaryOperator" and n["op"] == "=":
                l, r = f.kids(sid)[:2]
                p = f.path(l)
                if p in SWAPPED:
                    rn = f.stmts[f.strip(r)]
                    d = dict(st)
                    if rn["k"] == "DeclRefExpr" and saved.get(rn["declId"]) == p:
                        d.pop(p, None)
                    else:
                        d[p] = sid
                    return (tuple(sorted(d.items())),)
            if n["k"] == "ReturnStmt" and st:
                for p, w in st:
                    bad.setdefault((p, sid), w)
            return (st,)

        forward(f, [()], elem_fn)
        if bad:
            for (p, ret), w in sorted(bad.items()):
                key = "SWAP-NOT-RESTORED@%s#%s" % (f.qname, p)
                if not any(v["key"] == key for v in rep.violations):
                    rep.fail(key, "%s: %s swapped at %s is not restored on a path to the return at %s [%s]"
                             % (rel(f.short_loc(w)), p, rel(f.short_loc(w)), rel(f.short_loc(ret)), hyp(f)))
        else:
            rep.ok("%s: every swapped pointer (%s) is restored on all paths to a return [%s]"
                   % (f.qname, ", ".join(sorted(set(saved.values()))), hyp(f)),
                   sample=(hyp(f) == "TRIDIMENSIONAL"))


# ------------------------------------------------------ epoch agreement
def rule_epoch(rep, funcs):
    """EPOCH-AGREEMENT: in the strain-measure wrappers every local belongs to the beginning (0) or to the end (1) of the time step, by where
    its value comes from or which pointer of the behaviour data is redirected to it: copy::exe(d.s0.x, L.begin()) / d.s1.x = L.begin() /
    construction or assignment from locals of a single epoch.  A member call on a handler of one epoch never takes an argument of the
    other epoch (the end-of-step tangent moduli are converted with the end-of-step eigen-decomposition, and so on)."""
    for f in funcs:
        if f.qname not in WRAPPERS or f.d.get("isLambda"):
            continue
        epoch = {}          # declId -> 0 / 1 / None (mixed)
        names = {}

        def ep_of_expr(sid):
            """set of epochs mentioned by an expression (paths d.s0.* / d.s1.* and locals with a known epoch)."""
            out = set()
            for x in f.walk(sid):
                m = f.stmts[x]
                if m["k"] == "MemberExpr":
                    p = f.path(x) or ""
                    if p.startswith("d.s0."):
                        out.add(0)
                    elif p.startswith("d.s1."):
                        out.add(1)
                elif m["k"] == "DeclRefExpr" and m.get("local") and epoch.get(m.get("declId")) is not None:
                    out.add(epoch[m["declId"]])
            return out

        def local_of(sid):
            """the local object an expression designates: L, L.begin(), &L[0]"""
            s_ = f.strip(sid)
            n_ = f.stmts.get(s_)
            while n_ is not None and n_["k"] in ("CXXMemberCallExpr", "MemberExpr", "UnaryOperator", "ArraySubscriptExpr", "CXXOperatorCallExpr") and f.kids(s_):
                nxt = n_.get("obj") if n_["k"] == "CXXMemberCallExpr" and n_.get("obj") is not None else f.kids(s_)[0]
                if n_["k"] == "CXXOperatorCallExpr" and n_.get("args"):
                    nxt = n_["args"][0]
                s_ = f.strip(nxt)
                n_ = f.stmts.get(s_)
            if n_ is not None and n_["k"] == "DeclRefExpr" and n_.get("local") and not n_.get("parm"):
                names[n_["declId"]] = n_["name"]
                return n_["declId"]
            return None

        def setep(did, eps):
            if did is None or not eps:
                return False
            e = eps.pop() if len(eps) == 1 else None
            if did in epoch and epoch[did] != e:
                e = None if epoch[did] is None or e is None or epoch[did] != e else e
            if epoch.get(did, "unset") != e:
                epoch[did] = e
                return True
            return False
        order = sorted(f.stmts)
        for _ in range(4):
            changed = False
            for sid in order:
                n = f.stmts[sid]
                if n["k"] == "CallExpr" and re.search(r"copy<.*>::exe$", (n.get("callee") or "").split("(")[0]) and len(n.get("args") or []) == 2:
                    changed |= setep(local_of(n["args"][1]), ep_of_expr(n["args"][0]))
                bo = f.binop(sid)
                if bo and bo[0] == "=":
                    p = f.path(bo[1]) or ""
                    if p.startswith("d.s0.") or p.startswith("d.s1."):
                        did = local_of(bo[2])
                        if did is not None:
                            changed |= setep(did, {0 if p.startswith("d.s0.") else 1})
                    else:
                        did = local_of(bo[1]) if f.stmts[f.strip(bo[1])]["k"] == "DeclRefExpr" else None
                        if did is not None:
                            changed |= setep(did, ep_of_expr(bo[2]))
                if n["k"] == "DeclStmt":
                    for dd in n["decls"]:
                        if "init" in dd and not (dd.get("type") or "").endswith("*const") and "*" not in (dd.get("type") or ""):
                            names[dd["declId"]] = dd["name"]
                            changed |= setep(dd["declId"], ep_of_expr(dd["init"]))
            if not changed:
                break
        rep.count("wrappers examined for epoch agreement")
        nl = sum(1 for v in epoch.values() if v is not None)
        rep.count("locals with a single epoch", nl)
        bad = []
        ncalls = 0
        for sid, n in f.stmts.items():
            if n["k"] != "CXXMemberCallExpr" or n.get("obj") is None:
                continue
            o = f.stmts.get(f.strip(n["obj"]))
            if o is None or o["k"] != "DeclRefExpr" or epoch.get(o.get("declId")) is None or "Handler" not in (o.get("declType") or ""):
                continue
            ncalls += 1
            for a in n.get("args") or []:
                an = f.stmts.get(f.strip(a))
                if an is not None and an["k"] == "DeclRefExpr" and epoch.get(an.get("declId")) is not None and epoch[an["declId"]] != epoch[o["declId"]]:
                    bad.append((sid, o["name"], epoch[o["declId"]], an["name"], epoch[an["declId"]], last(n.get("callee"))))
        # convert<to, from>(K, F0, F1, s): F0 is the deformation gradient of the beginning of the step, F1 and the Cauchy stress s belong to
        # the same instant (both of the beginning for a prediction operator, both of the end after an integration)
        for sid, n in f.stmts.items():
            if n["k"] != "CallExpr" or not re.search(r"(^|::)convert$", (n.get("callee") or "").split("<")[0].split("(")[0]) or len(n.get("args") or []) != 4:
                continue
            es = []
            for a in n["args"][1:]:
                an = f.stmts.get(f.strip(a))
                es.append((an.get("name"), epoch.get(an.get("declId"))) if an is not None and an["k"] == "DeclRefExpr" else (None, None))
            if any(e is None for _n, e in es):
                continue
            ncalls += 1
            (n0, e0), (n1, e1), (n2, e2) = es
            if e0 != 0 or e1 != e2:
                bad.append((sid, "convert", 0, "%s, %s, %s" % (n0, n1, n2), 1, "convert"))
        rep.count("handler calls examined for epoch agreement", ncalls)
        if bad:
            for sid, on, oe, an, ae, cal in bad:
                key = "EPOCH-AGREEMENT@%s#%s.%s(%s)" % (f.qname, on, cal, an)
                if on == "convert":
                    if not any(v["key"] == key for v in rep.violations):
                        rep.fail(key, "%s: %s calls convert(., %s): the second argument must be the deformation gradient of the beginning of the "
                                 "time step and the third and fourth (deformation gradient and Cauchy stress) must belong to the same instant, as "
                                 "in the sibling branches [%s]" % (rel(f.short_loc(sid)), f.qname, an, hyp(f)))
                    continue
                if not any(v["key"] == key for v in rep.violations):
                    rep.fail(key, "%s: %s calls %s.%s with '%s': '%s' is built from the %s of the time step and '%s' holds a value of its %s - "
                             "the sibling branches pair handler and argument of the same epoch; the converted quantity is not the one "
                             "requested [%s]" % (rel(f.short_loc(sid)), f.qname, on, cal, an, on, ("beginning", "end")[oe], an, ("beginning", "end")[ae], hyp(f)))
        elif ncalls:
            rep.ok("%s: every handler call pairs a handler and arguments of the same epoch (%d calls, %d classified locals) [%s]"
                   % (f.qname, ncalls, nl, hyp(f)), sample=(hyp(f) == "TRIDIMENSIONAL"))


# ------------------------------------------- no output written before a failure
OUT_FIELDS = ("stored_energy", "dissipated_energy", "thermodynamic_forces", "internal_state_variables")


def rule_output_before_failure(rep, funcs):
    """WRITE-BEFORE-FAILURE: in mfront::gb::integrate no statement writes the caller's end-of-step stresses, internal state variables or energies
    (through d.s1.<field>: a dereference, a subscript, a mutable view, or the pointer handed to a function whose parameter is a pointer or
    reference to non-const) on a path that can still reach 'return -1'.  The state is exported by exportStateData only, which the
    MUST-PRECEDE rule places after every success test."""
    for f in funcs:
        if f.qname != "mfront::gb::integrate" or f.d.get("isLambda") or f.entry is None:
            continue
        rep.count("integrate instantiations examined for early output writes")

        def s1_field(x):
            p = f.path(x) or ""
            for fld in OUT_FIELDS:
                if p == "d.s1." + fld:
                    return fld
            return None

        def write_of(sid):
            n = f.stmts[sid]
            if n["k"] in ("CallExpr", "CXXMemberCallExpr"):
                cal = n.get("callee") or ""
                pts = n.get("calleeParamTypes") or []
                for i, a in enumerate(n.get("args") or []):
                    fld = s1_field(a)
                    if fld and i < len(pts):
                        t = pts[i]
                        if ("*" in t or "&" in t) and not re.match(r"^const ", t.strip()):
                            return fld, cal
            if n["k"] in ("CXXConstructExpr", "CXXTemporaryObjectExpr") and MUTABLE_VIEW.search(n.get("ctorClass") or ""):
                for a in n.get("args") or []:
                    if s1_field(a):
                        return s1_field(a), n.get("ctorClass")
            bo = f.binop(sid)
            if bo and (bo[0] == "=" or (bo[0].endswith("=") and bo[0] not in ("==", "!=", "<=", ">="))):
                l = f.stmts.get(f.strip(bo[1]))
                if l is not None and l["k"] in ("ArraySubscriptExpr",) and s1_field(f.kids(f.strip(bo[1]))[0]):
                    return s1_field(f.kids(f.strip(bo[1]))[0]), "assignment"
                if l is not None and l["k"] == "UnaryOperator" and l.get("op") == "*" and s1_field(f.kids(f.strip(bo[1]))[0]):
                    return s1_field(f.kids(f.strip(bo[1]))[0]), "assignment"
            return None
        bad = {}

        def el(st, b, i, e):
            if "s" not in e:
                return (st,)
            sid = e["s"]
            w = write_of(sid)
            if w:
                return (st | frozenset([(w[0], sid)]),)
            n = f.stmts[sid]
            if n["k"] == "ReturnStmt" and st and f.kids(sid):
                v = f.stmts.get(f.strip(f.kids(sid)[0]))
                neg = v is not None and v["k"] == "UnaryOperator" and v.get("op") == "-"
                if neg:
                    for fld, ws in st:
                        bad.setdefault(fld, (ws, sid))
            return (st,)
        forward(f, (frozenset(),), el)
        if bad:
            for fld, (ws, rs) in sorted(bad.items()):
                key = "WRITE-BEFORE-FAILURE@mfront::gb::integrate#%s" % fld
                if not any(v["key"] == key for v in rep.violations):
                    rep.fail(key, "%s: mfront::gb::integrate writes the caller's end-of-step %s (%s) and can still return -1 afterwards (%s): a failed "
                             "integration modifies the output state [%s]" % (rel(f.short_loc(ws)), fld, f.text(ws)[:70], rel(f.short_loc(rs)), hyp(f)))
        else:
            rep.ok("mfront::gb::integrate writes no output of the caller before its failure returns [%s]" % hyp(f), sample=(hyp(f) == "TRIDIMENSIONAL"))


# ------------------------------------------------ write-back only on success
INPUT_PATHS = ("d.s1.gradients", "d.s1.material_properties", "d.s1.external_state_variables", "d.s1.mass_density")
MUTABLE_VIEW = re.compile(r"(^|::)(?!Const)\w*View(<|$)")


def rule_writeback(rep, funcs):
    """in the strain-measure wrappers, after the inner integration returned, the caller's end-of-step data (d.s1.*, d.K, d.rdt) is
    written only on paths where the status is known not to be -1: a failed call leaves the outputs as they were."""
    for f in funcs:
        if f.qname not in WRAPPERS or f.d.get("isLambda") or f.entry is None:
            continue
        inner = None
        for sid, n in f.stmts.items():
            if n["k"] == "DeclStmt":
                for d in n["decls"]:
                    if "init" in d and d["type"] in ("int", "const int"):
                        cn = f.stmts[f.strip(d["init"])]
                        if cn["k"] == "CallExpr" and TRI_SOURCES.match(cn.get("callee") or ""):
                            inner = (sid, d["declId"], d["name"])
        if inner is None:
            continue
        rep.count("wrappers examined for write-back on failure")
        isid, rid, rname = inner

        def lit(x):
            n_ = f.stmts.get(f.strip(x))
            if n_ is None:
                return None
            if n_["k"] == "IntegerLiteral":
                return int(n_["value"])
            if n_["k"] == "UnaryOperator" and n_.get("op") == "-":
                v = lit(f.kids(f.strip(x))[0])
                return None if v is None else -v
            return None

        def atom(f_, s_):
            bo = f_.binop(s_)
            if bo and bo[0] in ("==", "!="):
                for a, b in ((bo[1], bo[2]), (bo[2], bo[1])):
                    an = f_.stmts.get(f_.strip(a))
                    if an is not None and an["k"] == "DeclRefExpr" and an.get("declId") == rid and lit(b) is not None:
                        return (("status", lit(b)), bo[0] == "!=")
            return None

        def out_path(x):
            p = f.path(x)
            if p and (p.startswith("d.s1.") or p in ("d.K", "d.rdt", "d.speed_of_sound")) and p not in INPUT_PATHS:
                return p
            return None

        def write_of(sid):
            """the caller-visible path this statement writes through, if any."""
            n_ = f.stmts[sid]
            if n_["k"] in ("CXXConstructExpr", "CXXTemporaryObjectExpr") and MUTABLE_VIEW.search(n_.get("ctorClass") or ""):
                for a in n_.get("args") or []:
                    p = out_path(a)
                    if p:
                        return p
            if n_["k"] == "CallExpr" and re.search(r"(copy<.*>::exe|std::copy|std::copy_n|std::fill|std::fill_n)$", (n_.get("callee") or "").split("(")[0]):
                a = n_.get("args") or []
                if a:
                    p = out_path(a[-1]) if "fill" not in n_["callee"] else out_path(a[0])
                    if p:
                        return p
            bo = f.binop(sid)
            if bo and (bo[0] == "=" or bo[0].endswith("=") and bo[0] not in ("==", "!=", "<=", ">=")):
                l = f.stmts.get(f.strip(bo[1]))
                if l is not None and l["k"] == "ArraySubscriptExpr":
                    return out_path(f.kids(f.strip(bo[1]))[0])
                if l is not None and l["k"] == "UnaryOperator" and l.get("op") == "*":
                    return out_path(f.kids(f.strip(bo[1]))[0])
            return None
        bad = {}
        nw = [0]

        def el(st, b, i, e):
            if "s" not in e:
                return (st,)
            facts, after = st
            sid = e["s"]
            if sid == isid:
                return ((facts, True),)
            if after:
                p = write_of(sid)
                if p:
                    nw[0] += 1
                    fx = dict(facts)
                    ok = fx.get(("status", -1)) is False or fx.get(("status", 1)) is True or fx.get(("status", 0)) is True
                    if not ok:
                        bad.setdefault(p, sid)
            return (st,)

        def ed(st, b, succ, pol):
            facts, after = st
            fx = branch(f, b, pol, dict(facts), atom)
            if fx is None:
                return ()
            return ((tuple(sorted(fx.items(), key=repr)), after),)
        forward(f, (((), False),), el, ed)
        rep.count("write-back sites after the inner integration", nw[0])
        # the two successful statuses are treated alike: 0 (valid results, smaller time step advised) reaches the same write-back sites as 1
        reach = {}
        for v in (0, 1):
            got = set()

            def el2(st, b, i, e, got=got):
                if "s" not in e:
                    return (st,)
                facts, after = st
                if e["s"] == isid:
                    fx = dict(facts)
                    fx.update({("status", -1): False, ("status", 0): v == 0, ("status", 1): v == 1})
                    return ((tuple(sorted(fx.items(), key=repr)), True),)
                if after and write_of(e["s"]):
                    got.add(e["s"])
                return (st,)
            forward(f, (((), False),), el2, ed)
            reach[v] = got
        if reach[0] != reach[1]:
            only = sorted(reach[1] - reach[0]) or sorted(reach[0] - reach[1])
            key = "STATUS-0-LIKE-1@%s" % f.qname
            if not any(v_["key"] == key for v_ in rep.violations):
                rep.fail(key, "%s: %s writes back %s when the inner integration returns 1 but not when it returns 0 (valid results, smaller time "
                         "step advised) - or conversely: after such a call the caller's stress and tangent operator are not those of the "
                         "requested measure [%s]" % (rel(f.short_loc(only[0])), f.qname, write_of(only[0]), hyp(f)))
        else:
            rep.ok("%s: statuses 0 and 1 reach the same %d write-back sites [%s]" % (f.qname, len(reach[1]), hyp(f)), sample=(hyp(f) == "TRIDIMENSIONAL"))
        if bad:
            for p, sid in sorted(bad.items()):
                key = "WRITE-BACK-ON-FAILURE@%s#%s" % (f.qname, p)
                if not any(v["key"] == key for v in rep.violations):
                    rep.fail(key, "%s: %s writes %s after the inner integration on a path where its status '%s' may be -1: a failed call "
                             "overwrites the caller's end-of-step data [%s]" % (rel(f.short_loc(sid)), f.qname, p, rname, hyp(f)))
        else:
            rep.ok("%s: the caller's end-of-step data is written back only when the status is not -1 (%d sites) [%s]" % (f.qname, nw[0], hyp(f)),
                   sample=(hyp(f) == "TRIDIMENSIONAL"))


# ------------------------------------------------------- policy forwarding
def rule_policy(rep, funcs):
    for f in funcs:
        if f.d.get("isLambda"):
            continue
        pol = [p for p in f.params if p["type"].endswith("tfel::material::OutOfBoundsPolicy")]
        if not pol:
            continue
        pid = pol[0]["declId"]
        if f.qname == "mfront::gb::integrate":
            rep.count("policy obligations")
            # MUST-PRECEDE(initialize/checkBounds; setOutOfBoundsPolicy(p))
            bad = {}

            def elem_fn(st, b, i, e):
                if "s" not in e:
                    return (st,)
                n = f.stmts[e["s"]]
                if n["k"] == "CXXMemberCallExpr":
                    c = last(n.get("callee"))
                    if c == "setOutOfBoundsPolicy":
                        a = f.stmts[f.strip(n["args"][0])]
                        if a["k"] == "DeclRefExpr" and a.get("declId") == pid:
                            return (True,)
                        bad.setdefault("setOutOfBoundsPolicy not given the caller's policy", e["s"])
                    if c in ("initialize", "checkBounds", "integrate", "computePredictionOperator") and not st \
                            and (n.get("calleeClass") or "").startswith("tfel::material::"):
                        bad.setdefault("%s reached before setOutOfBoundsPolicy(p)" % c, e["s"])
                return (st,)
            forward(f, [False], elem_fn)
            # MUST-PRECEDE(any output or success return; b.checkBounds()): under the Strict policy an out-of-bounds
            # variable must make the call fail whatever was requested (prediction operators included)
            rep.count("policy obligations")

            def elem_b(st, b, i, e):
                if "s" not in e:
                    return (st,)
                n = f.stmts[e["s"]]
                c = last(n.get("callee") or "")
                if n["k"] == "CXXMemberCallExpr" and c == "checkBounds" and (n.get("calleeClass") or "").startswith("tfel::material::"):
                    return (True,)
                if not st:
                    if n["k"] in ("CXXMemberCallExpr", "CallExpr") and c in (
                            "computePredictionOperator", "integrate", "exportStateData", "exportTangentOperator",
                            "computeSpeedOfSound", "getTangentOperator", "getPredictionOperator"):
                        bad.setdefault("%s reached on a path that skipped checkBounds()" % c, e["s"])
                    if n["k"] == "ReturnStmt" and f.kids(e["s"]) and not is_minus_one(f, f.kids(e["s"])[0]):
                        bad.setdefault("return of a non-failure status reached on a path that skipped checkBounds()", e["s"])
                return (st,)
            forward(f, [False], elem_b)
            for what, sid in bad.items():
                key = "POLICY@mfront::gb::integrate#" + what.split(" ")[0]
                if not any(v["key"] == key for v in rep.violations):
                    rep.fail(key, "%s: %s [%s]" % (rel(f.short_loc(sid)), what, hyp(f)))
            if not bad:
                rep.ok("mfront::gb::integrate: setOutOfBoundsPolicy(p) precedes initialize/checkBounds/integrate and checkBounds() precedes every output and non-failure return [%s]"
                       % hyp(f), sample=(hyp(f) == "TRIDIMENSIONAL"))
        # ARG-FORWARD: every callee with a policy parameter receives ours
        for sid, n in f.stmts.items():
            if n["k"] not in ("CallExpr", "CXXMemberCallExpr"):
                continue
            pts = n.get("calleeParamTypes") or []
            for idx, t in enumerate(pts):
                if t.endswith("tfel::material::OutOfBoundsPolicy") and idx < len(n["args"]):
                    rep.count("policy obligations")
                    a = f.stmts[f.strip(n["args"][idx])]
                    if a["k"] == "DeclRefExpr" and a.get("declId") == pid:
                        rep.ok("%s forwards its policy to %s" % (f.qname, n.get("callee")), sample=False)
                    else:
                        key = "ARG-FORWARD@%s#%s" % (f.qname, n.get("callee"))
                        if not any(v["key"] == key for v in rep.violations):
                            rep.fail(key, "%s: %s does not forward its OutOfBoundsPolicy to %s (passes %s)"
                                     % (rel(f.short_loc(sid)), f.qname, n.get("callee"),
                                        f.text(n["args"][idx])))


# ----------------------------------------------------------- return codes
def rule_return_codes(rep, funcs):
    allowed = ("-1", "0/1 from rdt", "status of callee")
    for f in funcs:
        if f.d.get("isLambda") or not TRI_SOURCES.match(f.qname):
            continue
        for sid, n in f.stmts.items():
            if n["k"] != "ReturnStmt" or not f.kids(sid):
                continue
            rep.count("return statements of status-returning entry points")
            e = f.strip(f.kids(sid)[0])
            en = f.stmts[e]
            ok = False
            if is_minus_one(f, e):
                ok = True
            elif en["k"] == "IntegerLiteral" and en["value"] in (0, 1):
                ok = True
            elif en["k"] == "ConditionalOperator":
                a, b = [f.stmts[f.strip(x)] for x in f.kids(e)[1:3]]
                ok = all(x["k"] == "IntegerLiteral" and x["value"] in (0, 1) for x in (a, b))
            elif en["k"] == "CallExpr" and TRI_SOURCES.match(en.get("callee") or ""):
                ok = True
            elif en["k"] == "DeclRefExpr":
                c = var_init_callee(f, en["declId"])
                ok = c in ("integrate", "computePredictionOperator")
            if ok:
                rep.ok("%s returns %s at %s" % (f.qname, f.text(e)[:50], rel(f.short_loc(sid))), sample=False)
            else:
                key = "RETURN-CODE@%s#%s" % (f.qname, f.text(e)[:40])
                if not any(v["key"] == key for v in rep.violations):
                    rep.fail(key, "%s: %s returns '%s', not one of %s"
                             % (rel(f.short_loc(sid)), f.qname, f.text(e), allowed))


# ------------------------------------------------------------ decode tables
PRED = {-3: "TANGENTOPERATOR", -2: "SECANTOPERATOR", -1: "ELASTIC"}
INTEG = {0: "NOSTIFFNESSREQUESTED", 1: "ELASTIC", 2: "SECANTOPERATOR",
         3: "TANGENTOPERATOR", 4: "CONSISTENTTANGENTOPERATOR"}
KCONV_MEMBERS = ("convertToSpatialTangentModuli", "convertToMaterialTangentModuli")
STRESS_BACK = ("convertToCauchyStress", "convertCauchyStressToFirstPiolaKirchhoffStress",
               "convertCauchyStressToSecondPiolaKirchhoffStress")


def make_interp(funcs, index, k0_const=None):
    def resolve(fn, sid, it, env):
        n = fn.stmts[sid]
        if n["k"] != "ArraySubscriptExpr":
            return None
        p = fn.path(sid)
        if not p:
            return None
        m = re.match(r"^(?:\w+\.)?K\[(\d+)\]$", p)
        if not m:
            return None
        idx = int(m.group(1))
        base = p[:p.index("[")]
        red = env.get("path:" + base)
        if red is not None and red[0] == "ptr":
            if idx == 0:
                return env.get("path:%s(0,0)" % red[1], TOP)
            return TOP
        if idx == index:
            if index == 0 and env.get("ev:exportK") == ("bool", True):
                # the tangent operator has been exported into the caller's K: K[0] no longer holds the request
                return TOP
            return True
        if idx == 0 and k0_const is not None:
            return const(k0_const)
        return TOP

    def on_call(it, fn, sid, env):
        n = fn.stmts[sid]
        cal = n.get("callee") or ""
        nm = last(cal)
        cls = n.get("calleeClass") or ""
        upd = {}
        if n["k"] == "CXXMemberCallExpr" and cls.startswith("tfel::material::") and len(n["args"]) == 2:
            if nm == "integrate":
                upd["ev:integ"] = it.eval(fn, n["args"][1], env)
            if nm == "computePredictionOperator":
                upd["ev:pred"] = it.eval(fn, n["args"][1], env)
        if nm == "exportTangentOperator":
            upd["ev:exportK"] = ("bool", True)
        if nm in KCONV_MEMBERS or cal == "tfel::material::convert":
            upd["ev:Kconv"] = ("bool", True)
        if TRI_SOURCES.match(cal) and fn.qname in WRAPPERS:
            upd["ev:inner"] = ("bool", True)
        if fn.qname in WRAPPERS and "ev:inner" in env and \
                any(fn.path(a) == "d.s1.thermodynamic_forces" for a in n.get("args", [])):
            # a view/copy targeting the output stress after the inner call
            upd["ev:stress"] = ("bool", True)
        return upd

    it = Interp(funcs, resolve, on_call)
    # pointer values and symbolic path values
    orig_eval = it.eval

    def eval2(fn, sid, env):
        n = fn.stmts[sid]
        if n["k"] == "CXXMemberCallExpr" and last(n.get("callee")) == "begin":
            op = fn.path(n.get("obj")) if n.get("obj") else None
            if op:
                return ("ptr", op)
        if n["k"] == "MemberExpr":
            p = fn.path(sid)
            if p:
                return env.get("path:" + p, ("pathval", p))
        return orig_eval(fn, sid, env)
    it.eval = eval2
    return it


def ename(v):
    if v and v[0] == "enum":
        return last(v[1])
    return str(v)


def rule_k0_tables(rep, funcs, entry_qname, hyps=None):
    """the piecewise-constant map K[0] -> (prediction|integration, SMType,
    tangent export/conversion) through the whole call chain."""
    entries = [f for f in funcs if f.qname == entry_qname and not f.d.get("isLambda")
               and (hyps is None or hyp(f) in hyps)]
    if not entries:
        raise AnalysisBroken("entry %s not instantiated by the corpus" % entry_qname)
    for f in entries:
        it = make_interp(funcs, 0)

        def run_cell(c):
            it.cell = c
            outs = it.run(f, {})
            integ = frozenset(ename(o["ev:integ"]) for o in outs if "ev:integ" in o)
            pred = frozenset(ename(o["ev:pred"]) for o in outs if "ev:pred" in o)
            expk = any("ev:exportK" in o for o in outs)
            kconv = any("ev:Kconv" in o for o in outs)
            stress = any("ev:stress" in o for o in outs)
            return (integ, pred, expk, kconv, stress)
        try:
            cells = partition(run_cell)
        except Unsupported as e:
            raise AnalysisBroken("interval analysis of %s: %s" % (tag(f), e))
        rep.count("K[0] cells computed", len(cells))
        table = []
        for c, o in cells:
            table.append("%s -> integ=%s pred=%s exportK=%s Kconv=%s stress=%s"
                         % (c, sorted(o[0]), sorted(o[1]), o[2], o[3], o[4]))
        if hyp(f) == "TRIDIMENSIONAL":
            rep.extra.setdefault("k0_tables", {})[entry_qname] = table
        wrapper = entry_qname in WRAPPERS
        for off in (0, 100):
            for code in range(-3, 5):
                x = Fraction(code + off)
                o = [oo for c, oo in cells if c.sample_in(x)]
                if len(o) != 1:
                    raise AnalysisBroken("cell lookup failed")
                integ, pred, expk, kconv, stress = o[0]
                rep.count("K[0] code obligations")
                if code < 0:
                    exp = (frozenset(), frozenset([PRED[code]]))
                else:
                    exp = (frozenset([INTEG[code]]), frozenset())
                errs = []
                if (integ, pred) != exp:
                    errs.append("behaviour receives integrate%s / computePredictionOperator%s, documented: integrate%s / computePredictionOperator%s"
                                % (sorted(integ), sorted(pred), sorted(exp[0]), sorted(exp[1])))
                if expk != (code != 0):
                    errs.append("tangent operator exported=%s, expected %s" % (expk, code != 0))
                if wrapper and entry_qname != "mfront::gb::finite_strain::integrate":
                    if kconv != (code != 0):
                        errs.append("wrapper converts a tangent operator=%s, expected %s" % (kconv, code != 0))
                    if stress != (code >= 0):
                        errs.append("wrapper writes back a converted stress=%s, expected %s" % (stress, code >= 0))
                if entry_qname == "mfront::gb::finite_strain::integrate":
                    if stress != (code >= 0):
                        errs.append("wrapper writes back a converted stress=%s, expected %s" % (stress, code >= 0))
                if errs:
                    key = "K0-DECODE@%s#K[0]=%d" % (entry_qname, code + off)
                    if not any(v["key"] == key for v in rep.violations):
                        rep.fail(key, "%s with K[0]=%d (Ke=%d%s): %s"
                                 % (entry_qname, code + off, code, ", speed of sound requested" if off else "",
                                    "; ".join(errs)), function=tag(f))
                else:
                    rep.ok("%s K[0]=%d -> %s %s" % (entry_qname, code + off,
                                                    "prediction" if code < 0 else "integration",
                                                    (PRED.get(code) or INTEG.get(code))),
                           sample=(hyp(f) == "TRIDIMENSIONAL" and off == 100 and code in (-2, 4)))


SM_SPEC = {0: "CAUCHY", 1: "PK2", 2: "PK1", 3: "INVALID_STRESS_MEASURE", 4: "INVALID_STRESS_MEASURE"}
TO_SPEC = {0: "DSIG_DF", 1: "DS_DEGL", 2: "DPK1_DF", 3: "DTAU_DDF", 4: "C_TRUESDELL", 5: "C_TRUESDELL"}


def rule_k12_tables(rep, funcs):
    for qn, index, spec, k0 in (("mfront::gb::getStressMeasure", 1, SM_SPEC, None),
                                ("mfront::gb::getTangentOperator", 2, TO_SPEC, 1)):
        fs = [f for f in funcs if f.qname == qn]
        if not fs:
            raise AnalysisBroken(qn + " not found")
        f = fs[0]
        it = make_interp(funcs, index, k0_const=k0)

        def run_cell(c):
            it.cell = c
            outs = it.run(f, {})
            return frozenset(ename(o.get("__ret")) for o in outs)
        cells = partition(run_cell)
        rep.extra.setdefault("k12_tables", {})[qn] = ["%s -> %s" % (c, sorted(o)) for c, o in cells]
        for code, exp in spec.items():
            rep.count("K[1]/K[2] code obligations")
            o = [oo for c, oo in cells if c.sample_in(Fraction(code))][0]
            if o == frozenset([exp]):
                rep.ok("%s: code %d -> %s" % (qn, code, exp))
            else:
                rep.fail("K12-DECODE@%s#%d" % (qn, code),
                         "%s: code %d decodes to %s, documented %s" % (qn, code, sorted(o), exp))
        if k0 is not None:
            # no stiffness requested: K[0] = 0, or 100 when the speed of sound is requested as well (Ke = K[0] - 100 above 50)
            for k00 in (0, 100):
                it0 = make_interp(funcs, index, k0_const=k00)

                def run_cell0(c, it0=it0):
                    it0.cell = c
                    return frozenset(ename(o.get("__ret")) for o in it0.run(f, {}))
                cells0 = partition(run_cell0)
                bad = [(c, o) for c, o in cells0 if "C_TRUESDELL" in o]
                rep.count("K[1]/K[2] code obligations")
                if bad:
                    rep.fail("K12-DECODE@%s#no-stiffness-K0=%d" % (qn, k00),
                             "%s: with K[0]=%d (no stiffness requested%s) K[2] in %s is rejected as invalid although it is documented as "
                             "meaningless for such a request: the call fails with -1" % (qn, k00, ", speed of sound requested" if k00 else "", bad[0][0]))
                else:
                    rep.ok("%s: K[2] is ignored when no stiffness is requested (K[0]=%d)" % (qn, k00))


# -------------------------------------------------- invalid code -> no write
def rule_invalid_before_write(rep, funcs):
    """in the wrappers, the INVALID_STRESS_MEASURE / C_TRUESDELL rejections
    return -1 before any assignment through d."""
    for f in funcs:
        if f.qname not in WRAPPERS or f.d.get("isLambda"):
            continue
        rep.count("wrapper instantiations (invalid-code rule)")
        found = set()
        bad = []

        def elem_fn(st, b, i, e):
            if "s" not in e:
                return (st,)
            n = f.stmts[e["s"]]
            if n["k"] == "BinaryOperator" and n["op"] == "=":
                p = f.path(f.kids(e["s"])[0]) or ""
                if p.startswith("d.") or p.startswith("*d."):
                    return (True,)
            if n["k"] in ("CallExpr",) and (n.get("callee") or "") in TRI_SOURCES.pattern:
                return (True,)
            return (st,)

        def edge_fn(st, b, succ, pol):
            if pol and b.cond is not None:
                src, truth = cond_source(f, b.cond, pol)
                if src in ("getStressMeasure==INVALID_STRESS_MEASURE", "getTangentOperator==C_TRUESDELL") and truth:
                    found.add(src)
                    if st:
                        bad.append((src, b.cond))
            return (st,)
        forward(f, [False], elem_fn, edge_fn)
        if len(found) < 2:
            rep.fail("INVALID-CODE-NOT-REJECTED@%s" % f.qname,
                     "%s: rejection tests found: %s (expected both the stress-measure and the tangent-operator test)"
                     % (f.qname, sorted(found)))
        elif bad:
            rep.fail("WRITE-BEFORE-REJECT@%s" % f.qname,
                     "%s: a write through d precedes the rejection of an invalid code" % f.qname)
        else:
            rep.ok("%s: invalid K[1]/K[2] codes are rejected before any write through d [%s]" % (f.qname, hyp(f)),
                   sample=(hyp(f) == "TRIDIMENSIONAL"))


def all_funcs(per):
    return [f for fs in per.values() for f in fs]
