"""Acceptance versus post-convergence (shared by C50 and C51).

GenericSolver::execute decides with a predicate E(first, second) on the result of an attempt (iterate / iterate2) whether the step is
committed (scs.update) or rejected (scs.revert).  Study::postConvergence - which evaluates the @Test comparisons, writes the user
post-processings and records end-of-step parameters - is called inside the attempt functions.  Two obligations relate the two sites:

  POSTCONVERGENCE-ONLY-IF-ACCEPTED (C50): for every valuation of the atoms of E, if an attempt function can reach its call of
    postConvergence under that valuation then E holds: nothing is recorded for an attempt that is going to be rejected;
  CHECKS-ALWAYS-RUN (C51): for every valuation under which E holds, no path of an attempt function returns a success without having
    called postConvergence: an accepted step is never left unchecked.

E is read from execute (the condition of the branch that separates update from revert, helper functions inlined), its atoms are
'dynamic time step scaling', 'first' and the comparison of 'second' with a constant (keyed by the constant's initialiser).  Each
attempt function is explored once per valuation with the branches that depend on those atoms resolved by the same evaluator
(three-valued: a condition the evaluator cannot read leaves both branches open, which can only add reports)."""
import os, itertools
from common import *
from cfg import *

UNIT = "mtest/src/GenericSolver.cxx"
CMP = {">=": ("ge", True), "<": ("ge", False), ">": ("gt", True), "<=": ("gt", False)}


class Pair:
    """what is known of a std::pair<bool, real>: .first is a constant or the atom 'first', .second a tag (text)."""

    def __init__(self, first, second):
        self.first, self.second = first, second


class Ev:
    def __init__(self, funcs):
        self.by = {}
        for f in funcs:
            if f.parent is None:
                self.by.setdefault(f.qname, f)
        self.atoms = set()

    def const_key(self, f, sid):
        n = f.stmts[f.strip(sid)]
        if n["k"] == "DeclRefExpr":
            for s, m in f.stmts.items():
                if m["k"] == "DeclStmt":
                    for dd in m["decls"]:
                        if dd.get("declId") == n.get("declId") and "init" in dd:
                            TEXT_DEPTH[0], old = 12, TEXT_DEPTH[0]
                            try:
                                return f.text(dd["init"])
                            finally:
                                TEXT_DEPTH[0] = old
            if n.get("globalStorage") and n.get("constVar"):
                return "constant %s" % n.get("qname")       # a namespace-scope constant: the same object wherever it is named
            return None
        if n["k"] in ("FloatingLiteral", "IntegerLiteral"):
            return str(n.get("value"))
        return None

    def pair_of(self, f, sid, env):
        s = f.strip(sid)
        n = f.stmts[s]
        while n["k"] in ("MaterializeTemporaryExpr", "CXXBindTemporaryExpr", "ExprWithCleanups", "CXXFunctionalCastExpr") and f.kids(s):
            s = f.strip(f.kids(s)[0])
            n = f.stmts[s]
        if n["k"] == "DeclRefExpr":
            return env.get(n.get("declId"))
        if n["k"] in ("CXXConstructExpr", "InitListExpr", "CXXTemporaryObjectExpr"):
            a = n.get("args") or f.kids(s)
            if len(a) == 2:
                b = f.stmts[f.strip(a[0])]
                while b["k"] in ("MaterializeTemporaryExpr",) and f.kids(f.strip(a[0])):
                    b = f.stmts[f.strip(f.kids(f.strip(a[0]))[0])]
                first = bool(b["value"]) if b["k"] == "CXXBoolLiteralExpr" else None
                return Pair(first if first is not None else "?", f.text(f.strip(a[1])))
            if len(a) == 1:
                return self.pair_of(f, a[0], env)      # copy
        return None

    def ev(self, f, sid, env, V, depth=0):
        """True / False / None"""
        s = f.strip(sid)
        n = f.stmts[s]
        k = n["k"]
        if k in ("ExprWithCleanups", "MaterializeTemporaryExpr", "CXXBindTemporaryExpr") and f.kids(s):
            return self.ev(f, f.kids(s)[0], env, V, depth)
        if k == "CXXBoolLiteralExpr":
            return bool(n["value"])
        if k == "UnaryOperator" and n.get("op") == "!":
            v = self.ev(f, f.kids(s)[0], env, V, depth)
            return None if v is None else not v
        if k == "BinaryOperator" and n.get("op") in ("&&", "||"):
            l, r = f.kids(s)[:2]
            lv, rv = self.ev(f, l, env, V, depth), self.ev(f, r, env, V, depth)
            if n["op"] == "&&":
                return False if (lv is False or rv is False) else (True if (lv and rv) else None)
            return True if (lv is True or rv is True) else (False if (lv is False and rv is False) else None)
        if k == "ConditionalOperator":
            c, a, b = f.kids(s)[:3]
            cv = self.ev(f, c, env, V, depth)
            if cv is None:
                av, bv = self.ev(f, a, env, V, depth), self.ev(f, b, env, V, depth)
                return av if av == bv else None
            return self.ev(f, a if cv else b, env, V, depth)
        if k == "MemberExpr":
            if n.get("member") == "dynamic_time_step_scaling":
                self.atoms.add(("dyn",))
                return V.get(("dyn",))
            if n.get("member") == "first":
                p = self.pair_of(f, f.kids(s)[0], env)
                if p is not None:
                    if p.first in (True, False):
                        return p.first
                    if p.first == "first":
                        self.atoms.add(("first",))
                        return V.get(("first",))
            return None
        bo = f.binop(s)
        if bo and bo[0] in CMP:
            kind, pol = CMP[bo[0]]
            for a, b, flip in ((bo[1], bo[2], False), (bo[2], bo[1], True)):
                an = f.stmts[f.strip(a)]
                tag = None
                if an["k"] == "MemberExpr" and an.get("member") == "second":
                    p = self.pair_of(f, f.kids(f.strip(a))[0], env)
                    tag = p.second if p is not None else None
                elif an["k"] == "DeclRefExpr" and an.get("local") and (an.get("declType") or "").replace("const ", "") in ("double", "mtest::real", "real"):
                    tag = an.get("name")
                if tag is None:
                    continue
                ck = self.const_key(f, b)
                if ck is None:
                    continue
                if "returned" in env and tag not in env["returned"]:
                    return None     # compares something else than the factor that is returned
                if flip:    # c OP x  ==  x OP' c
                    kind, pol = {("ge", True): ("gt", False), ("ge", False): ("gt", True), ("gt", True): ("ge", False), ("gt", False): ("ge", True)}[(kind, pol)]
                atom = (kind, ck)
                self.atoms.add(atom)
                v = V.get(atom)
                return None if v is None else (v == pol)
            return None
        if k == "DeclRefExpr":
            if n.get("declId") in env and isinstance(env[n["declId"]], tuple) and env[n["declId"]][0] == "expr":
                _t, g, e, env2 = env[n["declId"]]
                return self.ev(g, e, env2, V, depth)
            return None
        if k == "CallExpr" and depth < 3:
            g = self.by.get(n.get("callee") or "")
            if g is not None and g.body is not None:
                rets = [x for x, m in g.stmts.items() if m["k"] == "ReturnStmt"]
                if len(rets) == 1 and g.kids(rets[0]):
                    env2 = {}
                    for p, a in zip(g.params, n.get("args") or []):
                        pr = self.pair_of(f, a, env)
                        if pr is not None:
                            env2[p["declId"]] = pr
                    if "returned" in env:
                        env2["returned"] = env["returned"]
                    return self.ev(g, g.kids(rets[0])[0], env2, V, depth + 1)
            return None
        return None


def analyse():
    d = cfgdump([os.path.join(REPO, UNIT)], os.path.join(OUT, "attempts", "dump"), funcs=r"^mtest::", root=REPO)
    funcs = [f for f in load_functions(d) if f.file.endswith("GenericSolver.cxx") or UNIT in (f.loc or "")]
    E = Ev(funcs)
    ex = [f for f in funcs if f.qname == "mtest::GenericSolver::execute" and f.parent is None]
    its = [f for f in funcs if f.qname in ("mtest::iterate", "mtest::iterate2") and f.parent is None]
    if len(ex) != 1 or len(its) != 2:
        raise AnalysisBroken("GenericSolver::execute / iterate / iterate2 not found (%d, %d)" % (len(ex), len(its)))
    x = ex[0]
    # the branch separating update from revert
    pm = x.parent_map()

    def inside(s, anc):
        q = s
        while q is not None:
            if q == anc:
                return True
            q = pm.get(q)
        return False
    upd = [s for s, n in x.stmts.items() if n["k"] == "CXXMemberCallExpr" and (n.get("callee") or "").endswith("StudyCurrentState::update")]
    rev = [s for s, n in x.stmts.items() if n["k"] == "CXXMemberCallExpr" and (n.get("callee") or "").endswith("StudyCurrentState::revert")]
    if not upd or not rev:
        raise AnalysisBroken("execute: update/revert calls not found")
    sel = None
    for s, n in sorted(x.stmts.items()):
        if n["k"] == "IfStmt":
            ks = [k for k in x.kids(s) if k > 0]
            if len(ks) >= 3 and inside(upd[0], ks[-2]) and inside(rev[0], ks[-1]):
                sel = (s, ks[-3])
    if sel is None:
        raise AnalysisBroken("execute: no branch with update() in its then-arm and revert() in its else-arm")
    # environment of execute: locals holding the attempt's result (pairs initialised from a closure call or an attempt call),
    # boolean locals defined by an expression
    env = {}
    for s, n in x.stmts.items():
        if n["k"] == "DeclStmt":
            for dd in n["decls"]:
                if "init" not in dd:
                    continue
                ty = dd.get("type") or ""
                if "pair<bool" in ty:
                    env[dd["declId"]] = Pair("first", "second")
                elif ty.replace("const ", "") in ("bool", "_Bool"):
                    env[dd["declId"]] = ("expr", x, dd["init"], env)
    cond = sel[1]
    # atoms of E
    E.ev(x, cond, env, {})
    # iterate: E may need several passes to meet all atoms (short-circuit): enumerate until stable
    for _ in range(3):
        for vals in itertools.product((True, False), repeat=len(E.atoms)):
            E.ev(x, cond, env, dict(zip(sorted(E.atoms), vals)))
    atoms = sorted(E.atoms)
    if ("first",) not in atoms:
        raise AnalysisBroken("execute: the acceptance test does not read the attempt's verdict (.first)")
    table = {}
    for vals in itertools.product((True, False), repeat=len(atoms)):
        V = dict(zip(atoms, vals))
        v = E.ev(x, cond, env, V)
        if v is None:
            raise AnalysisBroken("execute: acceptance test undecided under %s" % V)
        table[vals] = v
    res = {"atoms": atoms, "table": table, "cond": x.text(cond), "loc": x.short_loc(sel[0]), "funcs": {}}
    # attempt functions
    for f in its:
        pcs = [s for s, n in f.stmts.items() if n["k"] == "CXXMemberCallExpr" and (n.get("callee") or "").endswith("::postConvergence")]
        out = {"pc_sites": len(pcs), "pc_when_rejected": [], "unchecked_when_accepted": [], "returns": 0}
        for vals in itertools.product((True, False), repeat=len(atoms)):
            V = dict(zip(atoms, vals))
            if not V[("first",)]:
                continue        # failures never reach postConvergence: decided by the return rule below
            fenv = {}
            for s, n in f.stmts.items():
                if n["k"] == "DeclStmt":
                    for dd in n["decls"]:
                        ty = dd.get("type") or ""
                        if "pair<bool" in ty and "init" in dd:
                            fenv[dd["declId"]] = Pair("first", "%s.second" % dd["name"])
            returned = set()
            for s, n in f.stmts.items():
                if n["k"] == "ReturnStmt" and f.kids(s):
                    pr = E.pair_of(f, f.kids(s)[0], fenv)
                    if pr is not None:
                        returned.add(pr.second)
            fenv["returned"] = returned

            def atom_first(f_, s):
                n_ = f_.stmts.get(s)
                if n_ is not None and n_["k"] == "MemberExpr" and n_.get("member") == "first":
                    return (("ok", f_.text(f_.kids(s)[0])), False)
                return None
            hits = {"pc": None, "unchecked": None}
            nret = [0]

            def el(st, b, i, e):
                if "s" not in e:
                    return (st,)
                s = e["s"]
                n_ = f.stmts[s]
                facts, done = st
                if n_["k"] == "CXXMemberCallExpr" and (n_.get("callee") or "").endswith("::postConvergence"):
                    if hits["pc"] is None:
                        hits["pc"] = s
                    return ((facts, True),)
                if n_["k"] == "ReturnStmt":
                    nret[0] += 1
                    if not done:
                        v_ = f.kids(s)
                        t = f.text(v_[0]) if v_ else ""
                        refs = sorted(set(f.stmts[y]["name"] for y in f.walk(s) if f.stmts[y]["k"] == "DeclRefExpr" and f.stmts[y].get("local")
                                          and "pair<bool" in (f.stmts[y].get("declType") or "")))
                        if len(refs) == 1:
                            t = refs[0]
                        lit = [f.stmts[y].get("value") for y in f.walk(s) if f.stmts[y]["k"] == "CXXBoolLiteralExpr"]
                        failure = (lit[:1] in ([False], [0])) or dict(facts).get(("ok", t)) is False
                        if not failure and hits["unchecked"] is None:
                            hits["unchecked"] = s
                return (st,)

            def ed(st, b, succ, pol):
                facts, done = st
                if pol is not None and b.cond is not None:
                    # second tag: the factor this function returns on its success paths
                    e2 = dict(fenv)
                    # a pair whose .first is known true on this path
                    for did, p in list(e2.items()):
                        if isinstance(p, Pair) and dict(facts).get(("ok", p.second.rsplit(".", 1)[0])) is True:
                            e2[did] = Pair(True, p.second)
                    v = E.ev(f, b.cond, e2, {a: V[a] for a in atoms if a != ("first",)})
                    if v is not None and v != pol:
                        return ()
                fx = branch(f, b, pol, dict(facts), atom_first)
                if fx is None:
                    return ()
                # '!r.first' false edge means r.first true
                return ((tuple(sorted(fx.items(), key=repr)), done),)
            forward(f, (((), False),), el, ed)
            out["returns"] = nret[0]
            acc = table[vals]
            if hits["pc"] is not None and not acc:
                out["pc_when_rejected"].append((V, f.short_loc(hits["pc"])))
            if hits["unchecked"] is not None and acc:
                out["unchecked_when_accepted"].append((V, f.short_loc(hits["unchecked"])))
        res["funcs"][f.qname] = out
    return res


def describe(V):
    words = []
    for a, v in sorted(V.items()):
        if a == ("dyn",):
            words.append("dynamic time step scaling %s" % ("on" if v else "off"))
        elif a == ("first",):
            words.append("the attempt converged" if v else "the attempt failed")
        else:
            op = {("ge", True): ">=", ("ge", False): "<", ("gt", True): ">", ("gt", False): "<="}[(a[0], v)]
            words.append("time step scaling factor %s %s" % (op, a[1]))
    return ", ".join(words)
