"""Floating domains for absint: Order (weak orders of tokens)."""
from absint import Domain, Unsupported, FConst


class OrderDomain(Domain):
    """inputs are tokens under a weak order (rank per token); floats may only be
    compared and moved.  Any arithmetic on a token aborts the analysis."""
    name = "Order"

    def __init__(self, ranks):
        self.ranks = ranks
        self.assumed = set()

    def tok(self, name):
        return ("tok", name)

    def zero(self):
        return ("fc", "0")

    def const(self, fc):
        return ("fc", fc.repr)

    def from_int(self, i):
        return ("fc", str(i))

    def fcmp(self, pred, a, b, m):
        if pred == "ord":
            return 1
        if pred == "uno":
            return 0
        if a[0] != "tok" or b[0] != "tok":
            raise Unsupported("comparison of a token with a non-token (%r, %r)" % (a, b))
        ra, rb = self.ranks[a[1]], self.ranks[b[1]]
        base = pred[1:] if pred[0] in "ou" else pred
        if pred[0] == "u":
            m.assumptions.add("unordered predicate %s treated as ordered (inputs finite, not NaN)" % pred)
        res = {"eq": ra == rb, "ne": ra != rb, "gt": ra > rb, "ge": ra >= rb, "lt": ra < rb, "le": ra <= rb}[base]
        return int(res)

    def call(self, name, args, m):
        if name in ("maxnum", "minnum", "fmax", "fmin") and all(a[0] == "tok" for a in args[:2]):
            a, b = args[:2]
            ra, rb = self.ranks[a[1]], self.ranks[b[1]]
            if name in ("maxnum", "fmax"):
                return a if ra >= rb else b
            return a if ra <= rb else b
        raise Unsupported("call of %s on tokens" % name)
