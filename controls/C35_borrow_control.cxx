// positive control of the borrow rule (not repository code): both uses of 'k' below must be reported
#include <functional>
#include <vector>
#include "TFEL/Utilities/CxxTokenizer.hxx"
namespace verif_ctl {
  struct Parser : tfel::utilities::CxxTokenizer {
    const_iterator current;
    void import() {
      std::vector<tfel::utilities::Token> other;
      other.swap(this->tokens);
    }
    unsigned long dispatch() {
      const auto& k = this->current->value;
      this->import();
      return k.size();  // dangling
    }
    unsigned long dispatch2() {
      const auto& k = this->current->value;
      try {
        this->import();
      } catch (...) {
        return k.size();  // dangling
      }
      return 0;
    }
    unsigned long fine() {
      const auto k = this->current->value;
      this->import();
      return k.size();  // a copy: not reported
    }
  };
}  // namespace verif_ctl
