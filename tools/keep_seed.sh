#!/bin/bash
# stores a confirmed seeded change under /verif/seeded/<id>/ : patch.diff, demo files, meta.json
# usage: keep_seed.sh <wt> <seed-id> <property> "<needs>" "<caught-by>"
WT=$1; ID=$2; PROP=$3; NEEDS=$4; CAUGHT=$5
D=/verif/seeded/$ID; mkdir -p $D
cp -r $WT/deliver/* $D/ 2>/dev/null
rm -rf $D/gen $D/*.o $D/demo $D/*.so $D/patch.diff.check 2>/dev/null
git -C $WT diff > $D/patch.diff
SUM=$(grep "^seed=" $WT/../confirm_$ID.out 2>/dev/null | tail -1)
python3 - "$D" "$ID" "$PROP" "$NEEDS" "$CAUGHT" "$SUM" <<'PY'
import json,sys
d,i,p,needs,caught,summ=sys.argv[1:7]
json.dump({"seed":i,"property":p,"needs_to_manifest":needs,
 "confirmed":{"how":"scratch copy of /repo mounted at /repo in a private mount namespace: incremental build, demo with the change (must FAIL), 636 pinned tests, then git stash, rebuild, demo without the change (must PASS)","summary":summ},
 "ran":["tools/confirm_seed.sh <scratch> "+i, "git -C /repo apply seeded/%s/patch.diff && ./check %s ; git -C /repo checkout -- ."%(i,p)],
 "detected_by":caught},open(d+"/meta.json","w"),indent=1)
PY
ls $D
