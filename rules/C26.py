"""C26 — inverse Langevin approximations: derivative clauses (exact/near-exact
formula identities on the IR).  Accuracy w.r.t. the true inverse Langevin
function is not decided."""
from fractions import Fraction
from common import *
from absint import lower_driver, Unsupported
from tensoralg import *
import poly as P

RULE = ("Poly-domain abstract interpretation: on every path of computeFunctionAndDerivative the second component is the "
        "exact derivative (quotient rule) of the first, the first equals computeFunction on the same path, KUHN_GRUN_1942 "
        "dispatches to the Morch series; Bergstrom-Boyce: tan/cos branch has the shape c1 tan(c2 y)+c3 y and "
        "c1 c2/cos(c2 y)^2+c3, both variants switch at the same constant")
RTOL = 1e-12


def run(tier):
    rep = Report("C26", tier, "other", RULE)
    rep.trusted += ["clang 14 code generation and -O2", "bin/ir2json, lib/absint.py, lib/poly.py"]
    P.reset_registry()
    mod = lower_driver(os.path.join(VERIF, "drivers", "c26_langevin.cxx"), os.path.join(OUT, "C26"), "c26")
    y = Rat.var("y")

    def paths(fname, nout):
        if fname not in mod["functions"]:
            raise AnalysisBroken("shim %s missing" % fname)
        try:
            r = run_shim(mod, fname, [[y]], [nout])
        except Unsupported as e:
            raise AnalysisBroken("%s: unsupported: %s" % (fname, e))
        rep.count("shims interpreted")
        rep.count("paths explored", len(r))
        return r
    res = {}
    for name in ("cohen", "jedynak", "morch", "kuhngrun"):
        fd = paths("verif_fd_" + name, 2)
        f = paths("verif_f_" + name, 1)
        if len(fd) != 1 or len(f) != 1:
            raise AnalysisBroken("%s: expected straight-line code" % name)
        v, d = fd[0][1][0]
        res[name] = (v, d)
        if d.approx_equals(v.diff("y"), RTOL):
            exact = d.equals(v.diff("y"))
            rep.ok("%s: second component of computeFunctionAndDerivative is d/dy of the first (%s)"
                   % (name.upper(), "exactly" if exact else "coefficients within %g, constants folded by the compiler" % RTOL))
        else:
            rep.fail("DERIVATIVE@InverseLangevinFunction<%s>" % name.upper(),
                     "%s: the derivative returned is  %r  but d/dy of the value  %r  is  %r" % (name.upper(), d, v, v.diff("y")))
        if f[0][1][0][0].approx_equals(v, RTOL):
            rep.ok("%s: computeFunction equals the first component of computeFunctionAndDerivative" % name.upper())
        else:
            rep.fail("VALUE-MISMATCH@InverseLangevinFunction<%s>" % name.upper(),
                     "%s: computeFunction  %r  differs from the value of computeFunctionAndDerivative  %r" % (name.upper(), f[0][1][0][0], v))
        # parity is reported, not required (the approximations are documented for y in [0,1))
        vm = run_shim(mod, "verif_f_" + name, [[-y]], [1])[0][1][0][0]
        rep.extra.setdefault("parity", {})[name] = "odd" if (vm + f[0][1][0][0]).approx_equals(0, RTOL) else "not odd as coded"
    if res["kuhngrun"][0].equals(res["morch"][0]) and res["kuhngrun"][1].equals(res["morch"][1]):
        rep.ok("KUHN_GRUN_1942 dispatches to the MORCH_2022 series (identical normal forms)")
    else:
        rep.fail("DISPATCH@KUHN_GRUN_1942", "KUHN_GRUN_1942 does not evaluate the Morch series")
    # Bergstrom-Boyce
    fd = paths("verif_fd_bb", 2)
    f = paths("verif_f_bb", 1)
    fmap = {tuple((str(i), d) for i, d in p[0]): p for p in f}
    thresholds = set()
    for path, outs, trace, assum, ret, dom in fd:
        key = tuple((str(i), d) for i, d in path)
        for info, d in path:
            if isinstance(info, tuple) and info[0] in ("olt", "ogt", "ole", "oge") and isinstance(info[2], Rat) and info[2].is_const() \
                    and not info[2].is_zero():
                thresholds.add(repr(info[2]))
        v, d = outs[0]
        rep.count("Bergstrom-Boyce paths")
        pv = fmap.get(key)
        if pv is None:
            rep.fail("BB-PATHS@BergstromBoyce1998", "value and value+derivative variants do not branch alike: %s" % (key,))
            continue
        if not pv[1][0][0].approx_equals(v, RTOL):
            rep.fail("VALUE-MISMATCH@BergstromBoyce1998#%s" % (key,), "variants disagree on path %s" % (key,))
            continue
        apps = dom.apps
        tans = [a for k, a in apps.items() if k[0] == "tan"]
        coss = [a for k, a in apps.items() if k[0] == "cos"]
        if v.n.variables() & {P.var_id(a[1]) for a in tans}:
            # trigonometric branch: v = c1*T + c3*y, d = c1*c2/C^2 + c3 with T = tan(c2 y), C = cos(c2 y)
            T = [a for a in tans if P.var_id(a[1]) in v.n.variables()][0]
            c1 = v.diff(T[1])
            rem = v - c1 * T[0]
            c3 = rem.diff("y")
            arg = T[2][0]
            c2 = arg.diff("y")
            Cs = [a for a in coss if P.var_id(a[1]) in (d.n.variables() | d.d.variables())]
            okshape = c1.is_const() and c3.is_const() and c2.is_const() and (rem - c3 * y).is_zero() and len(Cs) == 1 \
                and Cs[0][2][0].equals(arg)
            if okshape and ((d - c3) * Cs[0][0] * Cs[0][0]).approx_equals(c1 * c2, RTOL):
                rep.ok("Bergstrom-Boyce |y|<c0: value c1 tan(c2 y)+c3 y, derivative c1 c2/cos(c2 y)^2+c3 (same c1,c2,c3, same argument)")
            else:
                rep.fail("DERIVATIVE@BergstromBoyce1998#tan-branch", "value %r / derivative %r do not have the shape "
                         "c1 tan(u)+c3 y / c1 u'/cos(u)^2+c3" % (v, d))
        else:
            if d.approx_equals(v.diff("y"), RTOL):
                rep.ok("Bergstrom-Boyce outer branch %s: derivative is d/dy of %r" % (key[-1], v), sample=False)
            else:
                rep.fail("DERIVATIVE@BergstromBoyce1998#outer", "derivative %r is not d/dy of %r" % (d, v))
    if len(thresholds) == 1:
        rep.ok("both Bergstrom-Boyce variants switch branches at the same constant %s" % sorted(thresholds)[0])
    else:
        rep.fail("THRESHOLD@BergstromBoyce1998", "branch thresholds differ: %s" % sorted(thresholds))
    rep.floor("shims interpreted", 10)
    rep.floor("Bergstrom-Boyce paths", 4)
    rep.assumptions += ["exact arithmetic; constants folded by the compiler are compared within a relative tolerance of 1e-12 on "
                        "normal-form coefficients", "tan' = 1/cos^2 (calculus identity used for the trigonometric branch)",
                        "not decided: accuracy with respect to the true inverse Langevin function, monotonicity, parity "
                        "(reported in the evidence only)"]
    return rep
