#!/bin/bash
# run (inside inrepo) after deliver/run.sh, which builds work/libC50Probe.so
here=$(cd "$(dirname "$0")" && pwd)
B=/repo/_build
export LD_LIBRARY_PATH=$(ls -d $B/src/*/ $B/mfront/src $B/mtest/src | tr '\n' ':')
w=$here/../work; cd $w
for c in "LA:0, 1" "LB:0, 0.5, 1"; do
  n=${c%%:*}; t=${c#*:}
  sed -e "s|@LIB@|$w/libC50Probe.so|" -e "s|@OUT@|$w/$n.res|" -e "s|@TIMES@|$t|" $here/lagrange.mtest.in > $n.mtest
  $B/mtest/src/mtest --verbose=level1 $n.mtest > $n.log 2>&1; echo "$n exit $?"
  grep -E "^(resolution from|Dividing|-number of)|failed" $n.log | sed "s/^/  [$n] /"
  echo "  final line: $(grep -v '^#' $n.res | tail -n 1)"
done
