"""C27 — out-of-bounds policies behave as documented.

Library side (drivers/c27_bounds.cxx instantiates every check of
TFEL/Material/BoundsCheck.hxx), decided on the clang CFG:
 (a) DECISION-TABLE of the six BoundsCheckBase checks (scalar and quantity
     overloads): over all paths, with the atoms (value < lBound), (value >
     uBound), (p == None), (p == Strict):
        bound satisfied                  -> no effect
        violated, policy None            -> no effect
        violated, policy Strict          -> the [[noreturn]] throw function of that check, nothing after
        violated, policy Warning         -> the display...Warning function of that check, once, and only it
     and the violation predicate compares the checked value with the bound
     parameter with the strict operator (bounds are inclusive);
 (b) the default policy argument of every check is Strict;
 (c) ARG-FORWARD / coverage: every BoundsCheck<N> tensor wrapper calls the base
     check of the same kind once per component 0..StensorSize(N)-1 with that
     component, the bound parameter(s) in place and its own policy parameter.
Generated side (Engine E, corpus/bounds/VerifBounds.mfront, all hypotheses):
 (d) in checkBounds() every declared bound of the corpus is checked by the
     function of its kind on this-><variable> with the declared values; a
     standard bound passes the member 'policy', a physical bound passes no
     policy (default argument = Strict); physical bounds come first;
     setOutOfBoundsPolicy stores its argument in that member.
"""
import os, re, glob
from common import *
from cfg import *
import gencheck

RULE = ("decision tables of the BoundsCheckBase checks over all paths; default policy Strict; tensor wrappers forward policy "
        "and cover every component; generated checkBounds passes this->policy for standard bounds and nothing for physical ones")
KINDS = {"lowerBoundCheck": ("throwOutOfLowerBoundsException", "displayOutOfLowerBoundsWarning", ("<",)),
         "upperBoundCheck": ("throwOutOfUpperBoundsException", "displayOutOfUpperBoundsWarning", (">",)),
         "lowerAndUpperBoundsChecks": ("throwOutOfBoundsException", "displayOutOfBoundsWarning", ("<", ">"))}
SSZ = {1: 3, 2: 4, 3: 6}


def rel(loc):
    return loc.replace(REPO + "/", "")


def last(q):
    return (q or "").rsplit("::", 1)[-1]


def base_table(rep, f, kind):
    thr, dsp, ops = KINDS[kind]
    names = [p["name"] for p in f.params]
    pol = [p for p in f.params if p["type"].endswith("OutOfBoundsPolicy")]
    if not pol:
        raise AnalysisBroken("%s has no policy parameter" % f.display)
    pid = pol[0]["declId"]
    vparam = f.params[1]
    bparams = f.params[2:-1]

    def operand(s):
        """'value' / index of bound parameter / None, looking through base_type_cast / getValue."""
        for x in f.walk(s):
            n = f.stmts[x]
            if n["k"] == "DeclRefExpr":
                if n.get("declId") == vparam["declId"]:
                    return "value"
                for i, bp in enumerate(bparams):
                    if n.get("declId") == bp["declId"]:
                        return "bound%d" % i
        return None

    def atom(f_, s):
        n = f_.stmts[s]
        bo = f_.binop(s)
        if bo and bo[0] in ("<", ">", "<=", ">=") and n["k"] in ("BinaryOperator", "CXXOperatorCallExpr", "CXXRewrittenBinaryOperator"):
            l, r = operand(bo[1]), operand(bo[2])
            if l and r:
                return ("%s %s %s" % (l, bo[0], r), False)
        if bo and bo[0] in ("==", "!="):
            l, r = f_.stmts[f_.strip(bo[1])], f_.stmts[f_.strip(bo[2])]
            for a, b in ((l, r), (r, l)):
                if a["k"] == "DeclRefExpr" and a.get("declId") == pid and b.get("declKind") == "EnumConstant":
                    return ("p==%s" % b["name"], bo[0] == "!=")
        return None
    rows = []

    def el(st, b, i, e):
        fx, ev = st
        if "s" in e:
            n = f.stmts[e["s"]]
            if n["k"] == "CallExpr" and last(n.get("callee")).startswith(("throwOutOf", "displayOutOf")):
                ev = ev + (last(n["callee"]),)
        return ((fx, ev),)

    def ed(st, b, succ, pol_):
        fx, ev = st
        f2 = branch(f, b, pol_, dict(fx), atom)
        if f2 is None:
            return ()
        return ((tuple(sorted(f2.items())), ev),)
    IN, OUT = forward(f, [((), ())], el, ed)
    # paths that end in a throw never reach the exit block: collect them from block outputs
    finals = set(IN.get(f.exit, ()))
    for bid, sts in OUT.items():
        if f.abrupt(bid):
            finals |= sts
    key = "DECISION-TABLE@BoundsCheckBase::%s" % kind
    want_atoms = {"<": "value < bound0", ">": "value > bound%d" % (len(bparams) - 1)}
    seen_cases = set()
    for fx, ev in finals:
        fx = dict(fx)
        rep.count("decision-table rows")
        preds = [want_atoms[o] for o in ops]
        unknown = [a for a in fx if a.startswith("value") and a not in preds]
        if unknown:
            rep.fail(key + "#predicate", "%s (%s): the violation test is '%s'; expected the strict comparison(s) %s of the checked "
                     "value with its bound(s)" % (f.display, rel(f.loc), unknown[0], preds))
            continue
        viol = any(fx.get(a) is True for a in preds)
        sat = all(fx.get(a) is False for a in preds)
        if not viol and not sat:
            rep.fail(key + "#predicate", "%s: a path decides nothing about %s (%s)" % (f.display, preds, fx))
            continue
        none_, strict = fx.get("p==None"), fx.get("p==Strict")
        if sat:
            case, want = "satisfied", ()
        elif none_ is True:
            case, want = "violated/None", ()
        elif strict is True and none_ is not True:
            case, want = "violated/Strict", (thr,)
        elif strict is False and none_ is False:
            case, want = "violated/Warning", (dsp,)
        else:
            rep.fail(key + "#policy", "%s: a violated path does not decide the policy (%s)" % (f.display, fx))
            continue
        seen_cases.add(case)
        if tuple(ev) == want:
            rep.ok("%s: %s -> %s" % (f.display.split("tfel::material::")[-1][:60], case, list(want) or "no effect"),
                   sample=(case != "satisfied" and "double" in f.display))
        else:
            rep.fail(key + "#" + case, "%s (%s): on the path [%s] the effects are %s, expected %s"
                     % (f.display, rel(f.loc), case, list(ev) or "none", list(want) or "none"))
    for c in ("satisfied", "violated/None", "violated/Strict", "violated/Warning"):
        if c not in seen_cases and not any(v["key"].startswith(key) for v in rep.violations):
            rep.fail(key + "#missing-" + c, "%s has no path for the case %s" % (f.display, c))
    # (b) default argument
    dflt = pol[0].get("default")
    dn = f.stmts[f.strip(dflt)] if dflt else None
    if dn is not None and dn.get("name") == "Strict":
        rep.ok("%s: default policy is Strict" % kind, sample=False)
    else:
        rep.fail("DEFAULT-POLICY@BoundsCheckBase::%s" % kind, "%s: the default policy argument is %s, not Strict (physical bounds are "
                 "emitted without a policy)" % (f.display, dn.get("name") if dn else "absent"))


def wrapper_rule(rep, f, kind, N):
    pol = [p for p in f.params if p["type"].endswith("OutOfBoundsPolicy")][0]
    sparam = f.params[1]
    bparams = f.params[2:-1]
    calls = [(s, n) for s, n in f.stmts.items() if n["k"] == "CallExpr" and "BoundsCheckBase::" in (n.get("callee") or "")]
    key = "WRAPPER@BoundsCheck<%d>::%s" % (N, kind)
    tensor = "stensor" in sparam["type"]
    comps = []
    for s, n in calls:
        rep.count("wrapper call sites")
        a = n["args"]
        nm = last(n["callee"])
        if tensor and nm != kind:
            rep.fail(key + "#kind", "%s: %s calls the base check %s" % (rel(f.short_loc(s)), f.display, nm))
        # policy
        pa = f.stmts[f.strip(a[-1])]
        if not (pa["k"] == "DeclRefExpr" and pa.get("declId") == pol["declId"]):
            rep.fail(key + "#policy", "%s: %s does not forward its policy parameter to %s (passes %s): the caller's policy is "
                     "replaced by %s" % (rel(f.short_loc(s)), f.display, nm, f.text(a[-1]),
                                          "the default Strict" if pa["k"] == "CXXDefaultArgExpr" else f.text(a[-1])))
        else:
            rep.ok("%s forwards p to %s" % (f.display[-60:], nm), sample=False)
        # bounds in place
        want_b = bparams if (tensor or len(a) - 3 == len(bparams)) else None
        got_b = [f.stmts[f.strip(x)].get("declId") for x in a[2:-1]]
        if tensor and got_b != [b["declId"] for b in bparams]:
            rep.fail(key + "#bounds", "%s: %s passes the bounds %s instead of its own bound parameters in order"
                     % (rel(f.short_loc(s)), f.display, [f.text(x) for x in a[2:-1]]))
        # component
        if tensor:
            idx = None
            for x in f.walk(a[1]):
                m = f.stmts[x]
                if m["k"] == "CXXOperatorCallExpr" and m.get("op") == "()" and len(m.get("args", [])) == 2:
                    o = f.stmts[f.strip(m["args"][0])]
                    i = f.stmts[f.strip(m["args"][1])]
                    if o.get("declId") == sparam["declId"] and i["k"] == "IntegerLiteral":
                        idx = i["value"]
            comps.append(idx)
    if tensor:
        rep.count("tensor wrappers")
        if sorted(c for c in comps if c is not None) == list(range(SSZ[N])) and None not in comps:
            rep.ok("BoundsCheck<%d>::%s checks components 0..%d once each" % (N, kind, SSZ[N] - 1), sample=(N == 3))
        else:
            rep.fail(key + "#components", "%s (%s): components checked are %s, expected each of 0..%d exactly once"
                     % (f.display, rel(f.loc), comps, SSZ[N] - 1))
    else:
        rep.count("scalar wrappers")
        got = sorted(last(n["callee"]) for s, n in calls)
        if got != ["lowerBoundCheck", "upperBoundCheck"]:
            rep.fail(key + "#scalar", "%s calls %s, expected one lower and one upper base check" % (f.display, got))


def corpus_bounds(path):
    res = []
    for line in open(path):
        m = re.match(r"@(Physical)?Bounds\s+(\w+)\s+in\s+([\[\]])\s*([^:]+):([^\]\[]+)([\[\]])", line)
        if m:
            lo = None if m.group(4).strip() == "*" else float(m.group(4))
            hi = None if m.group(5).strip() == "*" else float(m.group(5))
            res.append(dict(physical=bool(m.group(1)), var=m.group(2), lo=lo, hi=hi))
    return res


def generated_rule(rep, tier):
    src_m = os.path.join(VERIF, "corpus", "bounds", "VerifBounds.mfront")
    decl = corpus_bounds(src_m)
    if len(decl) < 14:
        raise AnalysisBroken("corpus/bounds incomplete (%d bounds)" % len(decl))
    src, inc = gencheck.generate([src_m], os.path.join(OUT, "C27", "gen"))
    unit = os.path.join(src, "VerifBounds-generic.cxx")
    d = cfgdump([unit], os.path.join(OUT, "C27", "gdump"),
                funcs=r"^tfel::material::VerifBounds<.*>::(checkBounds|setOutOfBoundsPolicy)$",
                flags_for=gencheck.gen_flags(inc))
    funcs = load_functions(d)
    cbs = [f for f in funcs if f.qname.endswith("::checkBounds")]
    sps = [f for f in funcs if f.qname.endswith("::setOutOfBoundsPolicy")]
    if not cbs or not sps:
        raise AnalysisBroken("generated checkBounds/setOutOfBoundsPolicy not instantiated")
    if tier != "thorough":
        cbs = [f for f in cbs if "TRIDIMENSIONAL" in f.display][:1] + [f for f in cbs if "AXISYMMETRICALGENERALISEDPLANESTRAIN" in f.display][:1]
    for f in cbs:
        rep.count("generated checkBounds analysed")
        calls = []
        order = {x: i for i, x in enumerate(f.walk(f.body))}
        for s, n in sorted(f.stmts.items(), key=lambda kv: order.get(kv[0], 0)):
            if n["k"] == "CallExpr" and re.search(r"BoundsCheck(Base)?(<.*>)?::\w+$", n.get("callee") or "") and s in order:
                a = n["args"]
                nm = f.stmts[f.strip(a[0])]
                name = [f.stmts[x]["value"] for x in f.walk(a[0]) if f.stmts[x]["k"] == "StringLiteral"]
                vals = []
                for x in a[2:]:
                    lit = [f.stmts[y] for y in f.walk(x) if f.stmts[y]["k"] in ("IntegerLiteral", "FloatingLiteral")]
                    neg = any(f.stmts[y]["k"] == "UnaryOperator" and f.stmts[y]["op"] == "-" for y in f.walk(x))
                    if lit:
                        vals.append((-1 if neg else 1) * float(lit[0]["value"]))
                pa = f.stmts[f.strip(a[-1])]
                if pa["k"] == "CXXDefaultArgExpr":
                    dn = f.stmts[f.strip(pa["expr"])] if pa.get("expr") else {}
                    pol = "default:" + str(dn.get("name"))
                elif pa["k"] == "MemberExpr" and pa.get("member") == "policy":
                    pol = "member"
                else:
                    pol = "other:" + f.text(a[-1])
                calls.append(dict(kind=last(n["callee"]), name=name[0] if name else None, var=f.path(a[1]),
                                  vals=vals, pol=pol, site=s))
        hypn = re.search(r"Hypothesis::(\w+)", f.display).group(1)
        used = set()
        first_standard = None
        for i, c in enumerate(calls):
            if c["pol"] == "member" and first_standard is None:
                first_standard = i
        for dcl in decl:
            want_kind = "lowerAndUpperBoundsChecks" if dcl["lo"] is not None and dcl["hi"] is not None else \
                ("lowerBoundCheck" if dcl["lo"] is not None else "upperBoundCheck")
            want_vals = [v for v in (dcl["lo"], dcl["hi"]) if v is not None]
            want_pol = "default:Strict" if dcl["physical"] else "member"
            key = "GENERATED-BOUNDS@%s#%s" % (dcl["var"], "physical" if dcl["physical"] else "standard")
            cand = [i for i, c in enumerate(calls) if c["name"] == dcl["var"] and i not in used and
                    ((c["pol"].startswith("default")) == dcl["physical"] or c["pol"].startswith("other"))]
            if not cand:
                # same variable, same kind of function and values, but the other policy convention
                cand = [i for i, c in enumerate(calls) if c["name"] == dcl["var"] and i not in used and c["kind"] == want_kind
                        and c["vals"][:len(want_vals)] == want_vals]
            if not cand:
                rep.fail(key, "generated checkBounds() [%s] has no %s-bound check for '%s'" % (hypn, "physical" if dcl["physical"] else "standard", dcl["var"]))
                continue
            c = calls[cand[0]]
            used.add(cand[0])
            rep.count("generated bound checks")
            probs = []
            if c["kind"] != want_kind:
                probs.append("function %s instead of %s" % (c["kind"], want_kind))
            if c["var"] != "this->" + dcl["var"]:
                probs.append("checks %s" % c["var"])
            if c["vals"][:len(want_vals)] != want_vals:
                probs.append("bound values %s instead of %s" % (c["vals"], want_vals))
            if c["pol"] != want_pol:
                probs.append("policy argument is %s, expected %s" % (c["pol"], "this->policy" if want_pol == "member" else "none (default Strict)"))
            if dcl["physical"] and first_standard is not None and cand[0] > first_standard:
                probs.append("emitted after a standard bound (physical bounds must be checked first)")
            if probs:
                rep.fail(key, "%s: generated check of '%s' [%s]: %s" % (f.short_loc(c["site"]), dcl["var"], hypn, "; ".join(probs)))
            else:
                rep.ok("generated [%s]: %s bound of %s -> %s(%s, %s)" % (hypn, "physical" if dcl["physical"] else "standard", dcl["var"],
                                                                         want_kind, want_vals, "this->policy" if want_pol == "member" else "default Strict"),
                       sample=dcl["var"] in ("sb_t_both", "pb_sv_low", "both_kinds"))
        extra = [c for i, c in enumerate(calls) if i not in used]
        for c in extra:
            rep.fail("GENERATED-BOUNDS@%s#undeclared" % c["name"], "generated checkBounds() checks '%s' with %s, which the corpus does not declare" % (c["name"], c["kind"]))
    g = sps[0]
    w = [s for s, n in g.stmts.items() if n["k"] == "BinaryOperator" and n["op"] == "=" and (g.path(g.kids(s)[0]) or "") == "this->policy"
         and g.stmts[g.strip(g.kids(s)[1])].get("declId") == g.params[0]["declId"]]
    if w:
        rep.ok("generated setOutOfBoundsPolicy stores its argument in the member read by the standard-bound checks")
    else:
        rep.fail("GENERATED-BOUNDS@setOutOfBoundsPolicy", "generated setOutOfBoundsPolicy does not store its argument in this->policy")


def effect_rule(rep):
    """R4: the effect functions of the base checks are unconditional and stateless.
    displayOutOf*Warning: every path to the exit inserts into std::cerr (directly or
    through a same-unit helper that always does), and neither they nor their helpers
    touch any other mutable object of static / thread storage duration (a remembered
    'last message', a counter, a once-flag would make the warning depend on history).
    throwOutOf*Exception: no path reaches the normal exit."""
    unit = os.path.join(REPO, "src/Material/BoundsCheck.cxx")
    d = cfgdump([unit], os.path.join(OUT, "C27", "effects"), funcs=r"^tfel::material::")
    funcs = [f for f in load_functions(d)]
    top = {}
    for f in funcs:
        if f.parent is None:
            top.setdefault(f.qname, f)
    STREAMS = ("std::cerr", "std::clog")

    def helpers(f):
        return [n["callee"] for n in f.stmts.values() if n["k"] == "CallExpr" and n.get("callee") in top]

    def always_writes(f, seen=()):
        """must-pass-through: every normal path entry -> exit passes an insertion into std::cerr."""
        def writes(s):
            n = f.stmts[s]
            if n["k"] == "CXXOperatorCallExpr" and n.get("op") == "<<":
                for x in f.walk(s):
                    m = f.stmts[x]
                    if m["k"] == "DeclRefExpr" and m.get("qname") in STREAMS:
                        return True
            if n["k"] == "CallExpr" and n.get("callee") in top and n["callee"] not in seen and n["callee"] != f.qname:
                return always_writes(top[n["callee"]], seen + (f.qname,))
            return False

        def el(st, b, i, e):
            if "s" in e and st == 0 and writes(e["s"]):
                return (1,)
            return (st,)
        IN, _O = forward(f, (0,), el)
        return 0 not in IN.get(f.exit, set()), 1 in IN.get(f.exit, set())

    def mutable_statics(f, seen=None):
        seen = set() if seen is None else seen
        res = []
        if f.qname in seen:
            return res
        seen.add(f.qname)
        for g in [f] + [h for h in funcs if h.unit == f.unit and h.parent == f.id]:
            for s, n in g.stmts.items():
                if n["k"] == "DeclRefExpr" and n.get("globalStorage") and not n.get("constVar") and n.get("qname") not in STREAMS \
                        and n.get("qname") != "std::cout":
                    res.append((n.get("qname") or n.get("name"), g.short_loc(s)))
                if n["k"] == "DeclStmt":
                    for dd in n["decls"]:
                        if dd.get("static"):
                            res.append((dd.get("name"), g.short_loc(s)))
        for c in helpers(f):
            res += mutable_statics(top[c], seen)
        return res
    for kind, (thr, dis, _ops) in sorted(KINDS.items()):
        fd = top.get("tfel::material::BoundsCheckBase::" + dis)
        ft = top.get("tfel::material::BoundsCheckBase::" + thr)
        if fd is None or ft is None:
            raise AnalysisBroken("effect functions of %s not found in src/Material/BoundsCheck.cxx" % kind)
        rep.count("effect functions", 2)
        must, may = always_writes(fd)
        ms = mutable_statics(fd)
        if not must:
            rep.fail("EFFECT@%s#conditional" % dis, "%s: %s has a path to its exit that writes no warning to std::cerr: under the Warning policy "
                     "an out-of-bounds value can pass silently" % (rel(fd.loc), dis))
        elif ms:
            rep.fail("EFFECT@%s#stateful" % dis, "%s: %s depends on the mutable static/thread-local object %s (%s): whether a warning is "
                     "written depends on earlier calls, not only on the value and its bounds" % (rel(fd.loc), dis, ms[0][0], rel(ms[0][1])))
        else:
            rep.ok("%s writes to std::cerr on every path and keeps no state" % dis)
        IN, _O = forward(ft, (0,), lambda st, b, i, e: (st,))
        if IN.get(ft.exit):
            rep.fail("EFFECT@%s#returns" % thr, "%s: %s can return normally: under the Strict policy an out-of-bounds value does not raise"
                     % (rel(ft.loc), thr))
        else:
            rep.ok("%s never returns normally" % thr)
    rep.floor("effect functions", 6)


def run(tier):
    rep = Report("C27", tier, "other", RULE)
    drv = os.path.join(VERIF, "drivers", "c27_bounds.cxx")
    d = cfgdump([drv], os.path.join(OUT, "C27", "dump"), funcs=r"^tfel::material::BoundsCheck(Base|<[0-9]+>)::(lower|upper)",
                flags_for=lambda u: (header_flags(), VERIF))
    funcs = [f for f in load_functions(d) if f.parent is None]
    for f in funcs:
        kind = last(f.qname)
        if kind not in KINDS:
            continue
        if f.qname.startswith("tfel::material::BoundsCheckBase::"):
            rep.count("base checks")
            base_table(rep, f, kind)
        else:
            N = int(re.search(r"BoundsCheck<(\d)>", f.qname).group(1))
            wrapper_rule(rep, f, kind, N)
    rep.floor("base checks", 6)
    rep.floor("tensor wrappers", 18)
    rep.floor("decision-table rows", 30)
    effect_rule(rep)
    generated_rule(rep, tier)
    rep.floor("generated bound checks", 28)
    rep.assumptions += ["the generated side is decided for the corpus (all twelve kind x nature x rank arms of the bounds writer appear in it), "
                        "not for every behaviour the generator can emit",
                        "the run-time default policy of a behaviour (None) and the text of the messages are not checked"]
    return rep
