"""C16 — IEEE-754 classification is bit-exact: decision tables over bit-field
classes (exhaustive partition of all bit patterns) + fast-math independence."""
import itertools
from common import *
from absint import lower_driver, Unsupported
from bits import BitsMachine, BV, NeedSplit

RULE = ("Bits-domain abstract interpretation of the IR of fpclassify/isnan/isfinite for float, double, x87 long double: "
        "for every class of (sign, exponent, [integer bit,] fraction) the returned constant equals the IEEE-754 / glibc "
        "table; the IR compiled with -Ofast contains no floating instruction or comparison; identical tables under -O2 and -Ofast")
FP = {"NAN": 0, "INFINITE": 1, "ZERO": 2, "SUBNORMAL": 3, "NORMAL": 4}
NAMES = {v: k for k, v in FP.items()}
LAYOUT = {   # LSB first: (field, width)
    "f": [("frac", 23), ("exp", 8), ("sign", 1)],
    "d": [("frac", 52), ("exp", 11), ("sign", 1)],
    "l": [("frac", 63), ("int", 1), ("exp", 15), ("sign", 1)],
}
TYNAME = {"f": "float", "d": "double", "l": "long double (x87)"}


def spec(kind, cl):
    """IEEE-754 class of a bit pattern class; x87: glibc conventions (pseudo-denormal = normal, pseudo NaN/inf and
    unnormals = NaN)."""
    e, fr = cl["exp"], cl["frac"]
    if kind != "l":
        if e == "zero":
            return "ZERO" if fr == "zero" else "SUBNORMAL"
        if e == "ones":
            return "INFINITE" if fr == "zero" else "NAN"
        return "NORMAL"
    ib = cl["int"]
    if e == "zero" and ib == "zero":
        return "ZERO" if fr == "zero" else "SUBNORMAL"
    if ib == "zero":
        return "NAN"            # unnormal / pseudo-NaN / pseudo-infinity
    if e == "ones":
        return "INFINITE" if fr == "zero" else "NAN"
    return "NORMAL"             # includes pseudo-denormals (exp 0, integer bit 1), as glibc


def sub_fields(kind, cuts):
    """layout with fields split at the given cut positions: [(subname, width, parent)]"""
    out = []
    for f, w in LAYOUT[kind]:
        cs = sorted(c for c in cuts.get(f, ()) if 0 < c < w)
        pts = [0] + cs + [w]
        for i in range(len(pts) - 1):
            out.append(("%s.%d" % (f, i) if cs else f, pts[i + 1] - pts[i], f))
    return out


def classes(kind, cuts):
    subs = sub_fields(kind, cuts)
    doms = []
    for name, w, parent in subs:
        doms.append(("zero", "ones") if w == 1 else ("zero", "ones", "mid"))
    for combo in itertools.product(*doms):
        sub = {name: c for (name, w, p), c in zip(subs, combo)}
        whole = {}
        for f, w in LAYOUT[kind]:
            cs = [sub[n] for n, w2, p in subs if p == f]
            if all(c == "zero" for c in cs):
                whole[f] = "zero"
            elif all(c == "ones" for c in cs):
                whole[f] = "ones"
            else:
                whole[f] = "mid"
        # the specification only distinguishes zero / non-zero fractions
        spec_cl = dict(whole)
        spec_cl["frac"] = "zero" if whole["frac"] == "zero" else "nz"
        yield sub, spec_cl


def nan_of(kind):
    def f(sub_classes_unused):
        return None
    return f


def run(tier):
    rep = Report("C16", tier, "proof", RULE)
    rep.trusted += ["clang 14 code generation (-O2 and -Ofast pipelines)", "bin/ir2json, lib/absint.py, lib/bits.py"]
    drv = os.path.join(VERIF, "drivers", "c16_ieee754.cxx")
    tables = {}
    for opt, fast in (("-O2", False), ("-Ofast", True)):
        mod = lower_driver(drv, os.path.join(OUT, "C16"), "c16" + opt, opt="-O2", fast=fast)
        for kind in "fdl":
            for fn, what in (("fpclassify", "class"), ("isnan", "bool"), ("isfinite", "bool")):
                shim = "verif_%s_%s" % (fn, kind)
                if shim not in mod["functions"]:
                    raise AnalysisBroken("shim %s missing" % shim)
                # (b) no floating instruction in the lowered classifier (transitively)
                bad = []
                seen = set()
                todo = [shim]
                while todo:
                    g = todo.pop()
                    if g in seen or g not in mod["functions"]:
                        continue
                    seen.add(g)
                    for b in mod["functions"][g]["blocks"]:
                        for ins in b["insts"]:
                            if ins["op"] in ("fcmp", "fadd", "fsub", "fmul", "fdiv", "frem", "fneg", "fptosi", "fptoui", "sitofp", "uitofp"):
                                bad.append(ins["op"])
                            if ins["op"] in ("call", "invoke"):
                                c = ins.get("callee", "")
                                if c in mod["functions"]:
                                    todo.append(c)
                                elif not c.startswith("llvm.") and "reportContractViolation" not in c:
                                    bad.append("call " + c)
                rep.count("classifier functions scanned (%s)" % opt)
                if bad:
                    rep.fail("FLOAT-OP@ieee754::%s(%s)#%s" % (fn, TYNAME[kind], opt),
                             "ieee754::%s(%s) compiled with %s contains %s: under fast-math the compiler may fold floating "
                             "self-comparisons, so the classification is no longer independent of the optimisation flags"
                             % (fn, TYNAME[kind], opt, sorted(set(bad))))
                else:
                    rep.ok("ieee754::%s(%s): integer-only IR under %s" % (fn, TYNAME[kind], opt), sample=(kind == "d" and fast))
                if bad and not fast:
                    pass
                cuts = {}
                for attempt in range(8):
                    rows = []
                    try:
                        for sub, cl in classes(kind, cuts):
                            m = BitsMachine(mod, sub)
                            m.isnan_of = (lambda c, cl=cl: spec(kind, cl) == "NAN")
                            segs = [("f", name, 0, w, w) for name, w, parent in sub_fields(kind, cuts)]
                            arg = BV(sum(x[1] for x in LAYOUT[kind]), segs)
                            m.reset([])
                            r = m.call(shim, [arg])
                            if isinstance(r, BV):
                                lo, hi = m.rng(r)
                                if lo != hi:
                                    raise AnalysisBroken("%s: abstract result" % shim)
                                r = lo
                            rows.append((sub, cl, r))
                        break
                    except NeedSplit as ns:
                        parent = ns.field.split(".")[0]
                        # translate the cut inside the sub-field to a cut of the parent field
                        base = 0
                        for name, w, p in sub_fields(kind, cuts):
                            if name == ns.field:
                                break
                            if p == parent:
                                base += w
                        cuts.setdefault(parent, set()).update(base + c for c in ns.cuts)
                        rep.count("partition refinements")
                    except Unsupported as e:
                        raise AnalysisBroken("%s (%s): %s" % (shim, opt, e))
                else:
                    raise AnalysisBroken("%s: partition refinement did not converge" % shim)
                for sub, cl, r in rows:
                    sp = spec(kind, cl)
                    if what == "class":
                        want = FP[sp]
                    elif fn == "isnan":
                        want = int(sp == "NAN")
                    else:
                        want = int(sp in ("ZERO", "SUBNORMAL", "NORMAL"))
                    rep.count("decision-table rows")
                    ck = ",".join("%s=%s" % kv for kv in sorted(sub.items()))
                    key = "TABLE@ieee754::%s(%s)#%s" % (fn, TYNAME[kind], ck)
                    desc = "ieee754::%s(%s) on %s" % (fn, TYNAME[kind], sub)
                    if not cuts:
                        tables[(opt, fn, kind, ck)] = r
                    if r == want:
                        rep.ok("%s -> %s (%s)" % (desc, NAMES.get(r, r) if what == "class" else bool(r), opt),
                               sample=(kind == "d" and cl["exp"] == "ones" and opt == "-Ofast" and fn == "fpclassify"))
                    else:
                        rep.fail(key, "%s returns %s, IEEE-754 class %s requires %s (%s)"
                                 % (desc, NAMES.get(r, r) if what == "class" else r, sp,
                                    NAMES.get(want, want) if what == "class" else want, opt))
    diff = [k for k in tables if k[0] == "-O2" and tables.get(("-Ofast",) + k[1:]) != tables[k]]
    if diff:
        rep.fail("FLAG-DEPENDENT@ieee754", "tables differ between -O2 and -Ofast for %d classes, e.g. %s" % (len(diff), diff[0]))
    else:
        rep.ok("identical decision tables under -O2 and -Ofast")
    rep.floor("decision-table rows", 2 * 3 * (12 + 12 + 24))
    rep.extra["exhaustive"] = True
    rep.assumptions += ["x86-64 little-endian layouts: binary32, binary64, x87 80-bit extended (explicit integer bit)",
                        "for the x87 format the reference is glibc's fpclassify (pseudo-denormals normal; unnormals, pseudo-NaN, pseudo-infinity NaN)",
                        "classes partition all 2^32 / 2^64 / 2^80 patterns: exponent in {0, all-ones, other}, fraction in {0, non-zero}, "
                        "sign and integer bit in {0,1}"]
    return rep
